"""Tier-B seams: in-memory socket / select / threading fakes and a baton scheduler.

Real Python threads run the product's listener code unmodified, but exactly one thread holds
the *baton* at any time.  A thread gives the baton up only at a parking point (select, sleep,
contended lock, join, an explicit yield point); the seeded scheduler then chooses which
runnable thread continues, and jumps the virtual clock when none is runnable.  What is real is
the threads; what is simulated is the choice of who runs -- so a run replays exactly.
"""

from __future__ import annotations

import threading as _real_threading
from typing import Callable, Optional

from .run import StepCap

QUANTUM_MENU = [0.0005, 0.001, 0.003, 0.005]


class Deadlock(BaseException):
    pass


class Hang(BaseException):
    """A blocking call without timeout did not return within a generous span of virtual time."""


class SimThread:
    def __init__(self, sched, name, target=None, serial=0):
        self.sched = sched
        self.name = name
        self.serial = serial
        self.target = target
        self.sem = _real_threading.Semaphore(0)
        self.cond: Optional[Callable[[], bool]] = None
        self.wake_at: Optional[float] = None
        self.finished = False
        self.started = False
        self.real: Optional[_real_threading.Thread] = None
        self.exc = None


class Scheduler:
    def __init__(self, run, clock):
        self.run = run
        self.ch = run.ch
        self.clock = clock
        self.threads: list[SimThread] = []
        self.main = SimThread(self, "main", serial=0)
        self.main.started = True
        self.threads.append(self.main)
        self.current = self.main
        self.n_switches = 0
        self.max_switches = 200_000
        self.abort: Optional[BaseException] = None

    # ---------------------------------------------------------------- threads
    def new_thread(self, target, name) -> SimThread:
        t = SimThread(self, name, target, serial=len(self.threads))
        self.threads.append(t)
        return t

    def start_thread(self, t: SimThread):
        def body():
            t.sem.acquire()  # wait for the baton
            try:
                if self.abort is None:
                    t.target()
            except BaseException as e:  # noqa
                t.exc = e
                if not isinstance(e, Exception):
                    self.abort = e
            finally:
                t.finished = True
                self._handoff_from_finished(t)

        t.started = True
        t.cond = lambda: True
        t.wake_at = None
        t.real = _real_threading.Thread(target=body, name="sim-" + t.name, daemon=True)
        t.real.start()

    def _runnable(self, t: SimThread) -> bool:
        if t.finished or not t.started or t is self.current and False:
            return False
        if t.cond is None:
            return False
        try:
            if t.cond():
                return True
        except Exception:
            return True
        return t.wake_at is not None and self.clock.now() >= t.wake_at

    def _pick_next(self) -> SimThread:
        """Choose the next thread to run among the parked ones; advance time if none is runnable."""
        guard = 0
        while True:
            if self.abort is not None:
                return self.main
            guard += 1
            if guard > 100000:
                raise StepCap("scheduler spin")
            cands = [t for t in self.threads if self._runnable(t)]
            if cands:
                cands.sort(key=lambda t: t.serial)
                t = cands[self.ch.draw(len(cands), "sched", "next-thread")] if len(cands) > 1 else cands[0]
                return t
            # nobody runnable: jump the clock to the next wake-up or simulator event
            wakes = [t.wake_at for t in self.threads if t.started and not t.finished and t.cond is not None and t.wake_at is not None]
            nxt_ev = self.clock.q[0][0] if self.clock.q else None
            targets = [w for w in wakes] + ([nxt_ev] if nxt_ev is not None else [])
            if not targets:
                raise Deadlock("all threads parked without a wake-up time")
            target = min(targets)
            self.clock.advance(max(0.0, target - self.clock.now()))

    def park(self, cond: Callable[[], bool], timeout: Optional[float]):
        """Give up the baton until cond() holds or the timeout expires (virtual time)."""
        me = self.current
        self.n_switches += 1
        if self.n_switches > self.max_switches:
            raise StepCap("context-switch cap")
        me.cond = cond
        me.wake_at = None if timeout is None else self.clock.now() + timeout
        try:
            nxt = self._pick_next()
        except BaseException as e:
            if me is self.main:
                me.cond = None
                raise
            self.abort = e
            nxt = self.main
        if nxt is not me:
            self.current = nxt
            nxt.sem.release()
            me.sem.acquire()
            self.current = me
        me.cond = None
        me.wake_at = None
        if self.abort is not None and me is self.main:
            e, self.abort = self.abort, None
            raise e
        if self.abort is not None:
            raise SystemExit  # unwind a helper thread quietly

    def _handoff_from_finished(self, t: SimThread):
        try:
            nxt = self._pick_next()
        except BaseException as e:
            self.abort = e
            nxt = self.main
        self.current = nxt
        nxt.sem.release()

    def yield_point(self):
        """A pre-emption point: another runnable thread may be scheduled here."""
        self.park(lambda: True, 0.0)

    def sleep(self, d: float):
        if d < 0.0004:
            d = self.ch.pick(QUANTUM_MENU, "sched", "quantum")
        wake = self.clock.now() + d
        self.park(lambda: self.clock.now() >= wake, d)

    def shutdown(self):
        """Let every helper thread run to completion (they see abort and unwind)."""
        self.abort = self.abort or SystemExit()
        for t in self.threads[1:]:
            if t.started and not t.finished:
                t.sem.release()
        for t in self.threads[1:]:
            if t.real is not None:
                t.real.join(timeout=2.0)
        self.abort = None


# ----------------------------------------------------------------------------
# fakes handed to fandango.io
# ----------------------------------------------------------------------------
class FakeLock:
    def __init__(self, sched: Scheduler):
        self.sched = sched
        self.owner = None

    def acquire(self, blocking=True, timeout=-1):
        while self.owner is not None:
            if not blocking:
                return False
            self.sched.park(lambda: self.owner is None, None)
        self.owner = self.sched.current
        return True

    def release(self):
        self.owner = None

    def __enter__(self):
        self.acquire()
        return self

    def __exit__(self, *a):
        self.release()

    def locked(self):
        return self.owner is not None


class FakeThread:
    def __init__(self, sched: Scheduler, group=None, target=None, name=None, args=(), kwargs=None, daemon=None):
        self._sched = sched
        self._t = sched.new_thread(lambda: target(*args, **(kwargs or {})), name or "listener")
        self.daemon = daemon
        self.name = name or "listener"

    def start(self):
        self._sched.start_thread(self._t)
        self._sched.run.probe("thread_started")

    def join(self, timeout=None):
        if self._t.finished:
            return
        if timeout is not None:
            self._sched.park(lambda: self._t.finished, timeout)
            return
        t0 = self._sched.clock.now()
        while not self._t.finished:
            self._sched.park(lambda: self._t.finished, 5.0)
            if self._sched.clock.now() - t0 > 120.0:
                raise Hang("Thread.join() has not returned after 120 s of virtual time")

    def is_alive(self):
        return self._t.started and not self._t.finished


class FakeThreadingModule:
    def __init__(self, sched: Scheduler):
        self._sched = sched

    def Thread(self, *a, **kw):
        return FakeThread(self._sched, *a, **kw)

    def Lock(self):
        return FakeLock(self._sched)

    def current_thread(self):
        return self._sched.current


class Pipe:
    """One direction of a TCP connection: an ordered byte buffer with EOF / reset markers."""

    def __init__(self):
        self.buf = bytearray()
        self.eof = False
        self.reset = False


class FakeSocket:
    def __init__(self, net: "FakeNet", family, kind):
        self.net = net
        self.family, self.kind = family, kind
        self.listening = False
        self.bound = None
        self.conn: Optional["Connection"] = None
        self.side = None
        self.closed = False
        self.blocking = True
        self.connect_requested = False

    # -- server side
    def setsockopt(self, *a):
        pass

    def bind(self, addr):
        self.bound = addr
        self.net.bound[addr[1]] = self

    def listen(self, n):
        self.listening = True
        self.net.run.probe("socket_listening")

    def accept(self):
        c = self.net.pending_accept.pop(0)
        s = FakeSocket(self.net, self.family, self.kind)
        s.conn, s.side = c, "fandango"
        c.accepted = True
        self.net.run.event("accept")
        return s, ("127.0.0.1", 40000)

    # -- client side
    def setblocking(self, b):
        self.blocking = b

    def connect(self, addr):
        self.connect_requested = True
        self.net.connect_requests.append(self)
        self.net.run.event("connect-requested")
        if not self.blocking:
            raise BlockingIOError()

    # -- data
    def _rx(self) -> Pipe:
        return self.conn.to_fandango

    def _tx(self) -> Pipe:
        return self.conn.to_peer

    def readable(self) -> bool:
        if self.listening:
            return bool(self.net.pending_accept)
        if self.conn is None:
            return False
        p = self._rx()
        return bool(p.buf) or p.eof or p.reset

    def writable(self) -> bool:
        return self.conn is not None

    def recv(self, n):
        p = self._rx()
        if p.reset:
            raise ConnectionResetError("simulated reset")
        if not p.buf:
            if p.eof:
                self.net.run.probe("recv_eof")
                return b""
            raise BlockingIOError()
        # TCP segmentation: any non-empty prefix of what is buffered
        k = len(p.buf)
        if k > 1:
            k = 1 + self.net.run.ch.weighted([3] + [1] * (min(k, 8) - 1), "sched", "recv-len") if self.net.run.ch.draw(2, "sched", "short-read") else k
        k = min(k, n, len(p.buf))
        data = bytes(p.buf[:k])
        del p.buf[:k]
        if k < len(data) + len(p.buf) and p.buf:
            self.net.run.probe("short_read")
        self.net.on_recv(data)
        return data

    def recvfrom(self, n):
        return self.recv(n), ("127.0.0.1", 40000)

    def sendall(self, data):
        p = self._tx()
        if p.reset or self.closed:
            raise BrokenPipeError("simulated")
        self.net.on_wire_send(bytes(data))

    def sendto(self, data, addr):
        self.sendall(data)

    def shutdown(self, how):
        pass

    def close(self):
        self.closed = True

    def fileno(self):
        return id(self) & 0xFFFF


class Connection:
    def __init__(self):
        self.to_fandango = Pipe()
        self.to_peer = Pipe()
        self.accepted = False


class FakeNet:
    """The network as the product sees it (socket + select modules)."""

    AF_INET, AF_INET6, SOCK_STREAM, SOCK_DGRAM = 2, 10, 1, 2
    SOL_SOCKET, SO_REUSEADDR, SHUT_RDWR = 1, 2, 2

    class gaierror(OSError):
        pass

    def __init__(self, run, sched: Scheduler):
        self.run = run
        self.sched = sched
        self.bound: dict = {}
        self.pending_accept: list = []
        self.connect_requests: list = []
        self.on_wire_send = lambda data: None
        self.on_recv = lambda data: None
        self.sockets: list = []

    # socket module API
    def socket(self, family=2, kind=1, *a):
        s = FakeSocket(self, family, kind)
        self.sockets.append(s)
        return s

    def getaddrinfo(self, host, port, family=0, *a):
        return [(self.AF_INET, self.SOCK_STREAM, 6, "", ("127.0.0.1", 0))]

    # select module API
    def select(self, rlist, wlist, xlist, timeout=None):
        def ready():
            return [s for s in rlist if s.readable()], [s for s in wlist if s.writable()], []

        r, w, x = ready()
        if r or w:
            # still a pre-emption point: the OS may run another thread first
            self.sched.yield_point()
            return ready()
        t = timeout
        if t is not None and t < 0.0004:
            t = self.run.ch.pick(QUANTUM_MENU, "sched", "quantum")
        self.sched.park(lambda: any(s.readable() for s in rlist) or any(s.writable() for s in wlist), t)
        return ready()

    # simulator side
    def peer_connects(self, port) -> Optional[Connection]:
        srv = self.bound.get(port)
        if srv is None or not srv.listening:
            return None
        c = Connection()
        self.pending_accept.append(c)
        return c

    def peer_accepts(self) -> Optional[Connection]:
        for s in self.connect_requests:
            if s.conn is None:
                c = Connection()
                c.accepted = True
                s.conn, s.side = c, "fandango"
                return c
        return None
