"""Call-back target of the party classes printed into generated protocol specs.

The spec language's own extension point (party classes are user code) is the transport
seam of ProtoSim: ``send`` of a fuzzer-controlled party lands here, and the simulator
delivers remote data through the real ``party.receive(fragment, sender)``.
"""

SIM = None  # the active simulation (set by sims.protosim)


def on_party_created(party):
    if SIM is not None:
        SIM.on_party_created(party)


def on_send(party, message, recipient):
    if SIM is not None:
        SIM.on_send(party, message, recipient)


def on_start(party):
    if SIM is not None:
        SIM.on_start(party)


def on_stop(party):
    if SIM is not None:
        SIM.on_stop(party)


# generator ledger used by SearchSim (generators in specs call verif_gen)
LEDGER = None


def gen(name, *args):
    if LEDGER is None:
        raise RuntimeError("generator called without an active ledger")
    return LEDGER.call(name, args)
