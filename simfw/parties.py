"""Party classes imported by generated protocol specs (``from simfw.parties import Fz, Ex``).

Defining them in an importable module instead of printing them into every spec keeps the
(pure-Python ANTLR) front end from re-parsing 40 lines of Python per spec.  They are real
FandangoParty subclasses: registration, FandangoIO wiring, receive() and reset_parties()
all run product code; only send()/start()/stop() are routed to the simulator.
"""

from fandango.io import ConnectionMode, FandangoParty

from simfw import bridge


class _Fuzzer(FandangoParty):
    def __init__(self):
        super().__init__(connection_mode=ConnectionMode.OPEN)
        bridge.on_party_created(self)

    def send(self, message, recipient):
        bridge.on_send(self, message, recipient)

    def start(self):
        bridge.on_start(self)

    def stop(self):
        bridge.on_stop(self)


class _External(FandangoParty):
    def __init__(self):
        super().__init__(connection_mode=ConnectionMode.EXTERNAL)
        bridge.on_party_created(self)

    def start(self):
        bridge.on_start(self)

    def stop(self):
        bridge.on_stop(self)


class Fz(_Fuzzer):
    pass


class Fy(_Fuzzer):
    pass


class Ex(_External):
    pass


class Ey(_External):
    pass


class Ez(_External):
    pass
