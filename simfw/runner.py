"""Batch runner: seeded search over simulated runs on a pool of forked workers.

Phases of a check:
  1. main      -- N runs (seed_i = VERIF_SEED*1_000_003 + i), groups of K consecutive
                  seeds share one generated spec and are pinned to one worker
  2. determinism -- a sample of the seeds is re-executed in a *different* worker and
                  the event-log digests are compared (mismatch => exit 2, HARNESS-ERROR)
  3. shrink    -- the first run of every distinct *unlisted* violation signature is
                  minimised (ddmin over the decision trace) and written as a replay file
  4. verify    -- every replay file is re-executed in yet another worker and must
                  reproduce the same signature
Exit: 0 held (possibly KNOWN-FINDING lines) / 1 VIOLATION / 2 harness error.
"""

from __future__ import annotations

import faulthandler
import json
import multiprocessing as mp
import os
import signal
import sys
import traceback
from collections import Counter
from multiprocessing.connection import wait as conn_wait
from typing import Any, Callable, Optional

from . import boot
from .choices import Choices
from .run import HarnessError, Run, StepCap, WallTimeout, norm

VERIF = boot.VERIF_DIR
SEED_MULT = 1_000_003


# ----------------------------------------------------------------------------
# executing one run (in a worker)
# ----------------------------------------------------------------------------
def _alarm(signum, frame):
    raise WallTimeout()


def execute(sim, prop: str, seed: int, spec_seed: int, cfg: dict, replay: Optional[dict] = None) -> dict:
    """Run the simulator once; never raises."""
    ch = Choices(seed, spec_seed, replay)
    run = Run(ch, cfg, prop)
    boot.reset_serials(int(cfg.get("hash_perm", 0)))
    boot.reset_process_globals()
    status = "ok"
    err = None
    cap = float(cfg.get("run_wall_cap", 20.0))
    old = signal.signal(signal.SIGALRM, _alarm)
    signal.setitimer(signal.ITIMER_REAL, cap)
    t0 = boot.REAL_TIME()
    try:
        try:
            sim.run(run)
        finally:
            signal.setitimer(signal.ITIMER_REAL, 0)
            boot.CLOCK.active = None
            del boot.EXC_SINK[:]
    except WallTimeout:
        status, err = "inconclusive", "wall-timeout"
    except StepCap as e:
        status, err = "inconclusive", "step-cap:%s" % (e,)
    except RecursionError:
        status, err = "inconclusive", "recursion-limit"
    except MemoryError:
        status, err = "inconclusive", "memory"
    except BaseException as e:  # harness bug or unexpected product exception outside a seam
        if isinstance(e, (KeyboardInterrupt, SystemExit)):
            raise
        status = "harness_error"
        err = norm("".join(traceback.format_exception(type(e), e, e.__traceback__))[-3000:])
    finally:
        signal.signal(signal.SIGALRM, old)
    own = run.own_violations()
    if status == "ok" and own:
        status = "violation"
    elif status == "inconclusive" and own:
        status = "violation"  # a violation observed before the cap still counts
    return {
        "seed": seed,
        "spec_seed": spec_seed,
        "status": status,
        "error": err,
        "digest": run.digest(),
        "violations": run.violations,
        "faults": dict(run.faults),
        "probes": dict(run.probes),
        "states": list(run.states)[:5000],
        "nontrivial": bool(run.nontrivial),
        "ops": run.ops[:120],
        "vtime": run.vtime,
        "steps": run.steps,
        "info": run.info,
        "trace": ch.export(),
        "n_draws": ch.n_draws,
        "wall": boot.REAL_TIME() - t0,
        "events": run.event_log if cfg.get("keep_events") else None,
    }


# ----------------------------------------------------------------------------
# shrinking (in a worker)
# ----------------------------------------------------------------------------
def _flatten(trace: dict, order) -> list:
    return [(s, i) for s in order for i in range(len(trace.get(s, [])))]


def shrink(sim, prop, seed, spec_seed, cfg, trace: dict, signature: str, budget_s: float = 45.0, max_exec: int = 300) -> tuple[dict, int]:
    """Minimise ``trace`` while a violation with the same signature persists."""
    t_end = boot.REAL_TIME() + budget_s
    n_exec = 0

    def fails(tr: dict) -> bool:
        nonlocal n_exec
        n_exec += 1
        r = execute(sim, prop, seed, spec_seed, cfg, replay=tr)
        return any(v["signature"] == signature for v in r["violations"])

    def out_of_budget():
        return boot.REAL_TIME() > t_end or n_exec >= max_exec

    cur = {k: list(v) for k, v in trace.items()}
    if not fails(cur):
        return cur, n_exec  # not reproducible by replay: leave as is (reported by verify)
    # cheap streams first; the spec stream last (a new spec text costs a front-end parse)
    order = [s for s in ("fault", "sched", "work", "prng", "cfg", "spec") if s in cur]
    # pass 1: truncate each stream (binary search on length; exhausted stream => zeros)
    for s in order:
        lo, hi = 0, len(cur[s])
        while lo < hi and not out_of_budget():
            mid = (lo + hi) // 2
            cand = dict(cur)
            cand[s] = cur[s][:mid]
            if fails(cand):
                hi = mid
                cur = cand
            else:
                lo = mid + 1
    # pass 2: zero chunks, then delete chunks (ddmin style), per stream
    for s in order:
        n = len(cur[s])
        chunk = max(1, n // 2)
        while chunk >= 1 and not out_of_budget():
            i = 0
            while i < len(cur[s]) and not out_of_budget():
                seg = cur[s][i : i + chunk]
                if any(seg):
                    cand = dict(cur)
                    cand[s] = cur[s][:i] + [0] * len(seg) + cur[s][i + chunk :]
                    if fails(cand):
                        cur = cand
                        i += chunk
                        continue
                if s != "spec":
                    cand = dict(cur)
                    cand[s] = cur[s][:i] + cur[s][i + chunk :]
                    if fails(cand):
                        cur = cand
                        continue
                i += chunk
            chunk //= 2
    # pass 3: lower individual values
    for s in order:
        for i in range(len(cur[s])):
            if out_of_budget():
                break
            v = cur[s][i]
            for cand_v in (0, v // 2, v - 1):
                if 0 <= cand_v < cur[s][i]:
                    cand = dict(cur)
                    cand[s] = cur[s][:i] + [cand_v] + cur[s][i + 1 :]
                    if fails(cand):
                        cur = cand
                        break
    # drop trailing zeros (an exhausted stream yields zeros anyway)
    for s in list(cur):
        while cur[s] and cur[s][-1] == 0:
            cur[s].pop()
    return cur, n_exec


# ----------------------------------------------------------------------------
# worker process
# ----------------------------------------------------------------------------
def _worker_main(widx: int, conn, sim_name: str, prop: str, cfg: dict, stop_flag):
    try:
        devnull = open(os.devnull, "w")
        sys.stdout = devnull
        sys.stderr = devnull
        signal.signal(signal.SIGINT, signal.SIG_IGN)
        sim = load_sim(sim_name)
        hard = float(cfg.get("run_wall_cap", 20.0)) * 3 + 30
        poisoned: set = set()
        while True:
            task = conn.recv()
            if task is None:
                break
            kind = task[0]
            faulthandler.cancel_dump_traceback_later()
            if kind == "run":
                _, seed, spec_seed, replay, extra = task
                c = dict(cfg)
                c.update(extra or {})
                if spec_seed in poisoned and replay is None:
                    # an earlier run on this generated spec hit the wall-clock cap: do not burn
                    # the budget on its siblings (reported as dropped, not as executed)
                    conn.send(("result", task[1], {"seed": seed, "spec_seed": spec_seed, "status": "skipped", "error": "spec-poisoned-by-earlier-timeout", "digest": "", "violations": [], "faults": {}, "probes": {}, "states": [], "nontrivial": False, "ops": [], "vtime": 0, "steps": 0, "info": {}, "trace": {}, "n_draws": 0, "wall": 0, "events": None}))
                    continue
                faulthandler.dump_traceback_later(hard, exit=True, file=sys.__stderr__)
                res = execute(sim, prop, seed, spec_seed, c, replay)
                faulthandler.cancel_dump_traceback_later()
                if res["status"] == "inconclusive" and res["error"] == "wall-timeout" and replay is None:
                    poisoned.add(spec_seed)
                conn.send(("result", task[1], res))
            elif kind == "shrink":
                _, seed, spec_seed, trace, signature, budget = task
                faulthandler.dump_traceback_later(budget * 3 + hard, exit=True, file=sys.__stderr__)
                tr, n = shrink(sim, prop, seed, spec_seed, cfg, trace, signature, budget_s=budget)
                c = dict(cfg)
                c["keep_events"] = False
                res = execute(sim, prop, seed, spec_seed, c, replay=tr)
                res_b = execute(sim, prop, seed, spec_seed, c, replay=tr)
                if not all(any(v["signature"] == signature for v in r_["violations"]) for r_ in (res, res_b)) or res["digest"] != res_b["digest"]:
                    # a minimised trace that does not replay stably is worthless: keep the recorded one
                    tr = trace
                    res = execute(sim, prop, seed, spec_seed, c, replay=tr)
                faulthandler.cancel_dump_traceback_later()
                conn.send(("shrunk", (seed, signature), tr, n, res))
    except (EOFError, BrokenPipeError, KeyboardInterrupt):
        pass
    except BaseException:
        try:
            conn.send(("crash", traceback.format_exc()))
        except Exception:
            pass
    finally:
        os._exit(0)


def load_sim(name: str):
    import importlib

    boot.boot()
    mod = importlib.import_module("sims." + name)
    return mod


class Pool:
    """Forked workers, one duplex pipe each; static assignment keeps runs of one
    spec group on one worker so the front-end memo is effective."""

    def __init__(self, n: int, sim_name: str, prop: str, cfg: dict):
        self.ctx = mp.get_context("fork")
        self.n = n
        self.sim_name, self.prop, self.cfg = sim_name, prop, cfg
        self.stop = self.ctx.Value("i", 0)
        self.procs: list = [None] * n
        self.conns: list = [None] * n
        for i in range(n):
            self._spawn(i)

    def _spawn(self, i: int):
        parent, child = self.ctx.Pipe(duplex=True)
        p = self.ctx.Process(target=_worker_main, args=(i, child, self.sim_name, self.prop, self.cfg, self.stop), daemon=True)
        p.start()
        child.close()
        self.procs[i] = p
        self.conns[i] = parent

    def close(self):
        for i in range(self.n):
            try:
                self.conns[i].send(None)
            except Exception:
                pass
        for p in self.procs:
            p.join(timeout=2)
            if p.is_alive():
                p.kill()

    def map_tasks(self, queues: list[list], on_result: Callable, deadline: Optional[float], task_hard_cap: float):
        """queues[w] is the ordered task list of worker w.  Calls on_result(msg, task)
        for each finished task.  Tasks not started before ``deadline`` are dropped.
        A worker that dies or exceeds the hard cap is respawned; its current task is
        reported as inconclusive."""
        from collections import deque

        pending = [deque(q) for q in queues]
        current: list = [None] * self.n
        started: list = [0.0] * self.n
        dropped = 0

        def feed(w):
            nonlocal dropped
            if pending[w]:
                if deadline is not None and boot.REAL_TIME() > deadline:
                    dropped += len(pending[w])
                    pending[w] = deque()
                    current[w] = None
                    return
                t = pending[w].popleft()
                current[w] = t
                started[w] = boot.REAL_TIME()
                self.conns[w].send(t)
            else:
                current[w] = None

        for w in range(self.n):
            feed(w)
        while any(c is not None for c in current):
            active = [self.conns[w] for w in range(self.n) if current[w] is not None]
            ready = conn_wait(active, timeout=1.0)
            now = boot.REAL_TIME()
            for w in range(self.n):
                if current[w] is None:
                    continue
                c = self.conns[w]
                if c in ready:
                    try:
                        msg = c.recv()
                    except (EOFError, OSError):
                        msg = ("dead",)
                    if msg[0] in ("dead", "crash"):
                        on_result(("lost", msg), current[w])
                        self._respawn(w)
                    else:
                        on_result(msg, current[w])
                    feed(w)
                elif not self.procs[w].is_alive():
                    on_result(("lost", ("dead",)), current[w])
                    self._respawn(w)
                    feed(w)
                elif now - started[w] > task_hard_cap:
                    on_result(("lost", ("hard-timeout",)), current[w])
                    self._respawn(w)
                    feed(w)
        return dropped

    def _respawn(self, w):
        try:
            self.procs[w].kill()
        except Exception:
            pass
        try:
            self.conns[w].close()
        except Exception:
            pass
        self._spawn(w)


# ----------------------------------------------------------------------------
# known findings
# ----------------------------------------------------------------------------
def load_known() -> list[dict]:
    p = os.path.join(VERIF, "known_findings.json")
    if not os.path.exists(p):
        return []
    with open(p) as f:
        return json.load(f).get("findings", [])


def known_match(known: list[dict], prop: str, signature: str) -> Optional[dict]:
    import fnmatch

    for k in known:
        if k.get("status") != "known" or k.get("property") != prop:
            continue
        pat = k.get("signature", "")
        if pat == signature or ("*" in pat and fnmatch.fnmatchcase(signature, pat)):
            return k
    return None


# ----------------------------------------------------------------------------
# the check driver
# ----------------------------------------------------------------------------
def run_batch(prop: str, sim_name: str, tier: str, cfg: dict, meta: dict):
    t_start = boot.REAL_TIME()
    base_seed = int(os.environ.get("VERIF_SEED", "0") or 0)
    nworkers = int(os.environ.get("VERIF_WORKERS", "0") or 0) or min(16, os.cpu_count() or 4)
    n_runs = int(cfg["runs"])
    k = int(cfg.get("runs_per_spec", 1))
    wall = float(cfg.get("wall_s", 120))
    if os.environ.get("VERIF_RUNS"):
        n_runs = int(os.environ["VERIF_RUNS"])
    if os.environ.get("VERIF_WALL"):
        wall = float(os.environ["VERIF_WALL"])
    print("check %s sim=%s tier=%s VERIF_SEED=%d runs<=%d wall<=%.0fs workers=%d hashseed=%s repo=%s" % (prop, sim_name, tier, base_seed, n_runs, wall, nworkers, boot.HASHSEED, boot.REPO_SRC), flush=True)

    boot.boot()
    boot.warm_front_end()
    known = load_known()

    seeds = [base_seed * SEED_MULT + i for i in range(n_runs)]
    spec_seed_of = {s: base_seed * SEED_MULT + (i // k) * k for i, s in enumerate(seeds)}
    ngroups = (n_runs + k - 1) // k
    queues: list[list] = [[] for _ in range(nworkers)]
    # interleave groups over workers so that a wall cut removes the *last* groups of each
    for g in range(ngroups):
        w = g % nworkers
        for s in seeds[g * k : (g + 1) * k]:
            queues[w].append(("run", s, spec_seed_of[s], None, None))

    pool = Pool(nworkers, sim_name, prop, cfg)
    results: dict[int, dict] = {}
    lost: list = []

    def on_main(msg, task):
        if msg[0] == "result":
            results[msg[1]] = msg[2]
        elif msg[0] == "lost":
            lost.append((task[1], msg[1]))
            results[task[1]] = {"seed": task[1], "spec_seed": task[2], "status": "inconclusive", "error": "worker-" + str(msg[1][0]), "digest": "", "violations": [], "faults": {}, "probes": {}, "states": [], "nontrivial": False, "ops": [], "vtime": 0, "steps": 0, "info": {}, "trace": {}, "n_draws": 0, "wall": 0, "events": None}

    hard = float(cfg.get("run_wall_cap", 20.0)) * 3 + 60
    try:
        dropped = pool.map_tasks(queues, on_main, t_start + wall, hard)
        main_wall = boot.REAL_TIME() - t_start

        # ---- determinism: re-execute a sample in a different worker ----------
        done = [s for s in seeds if s in results and results[s]["status"] in ("ok", "violation")]
        frac = float(cfg.get("determinism_sample", 0.05))
        n_det = min(len(done), max(min(len(done), 8), int(len(done) * frac)))
        step = max(1, len(done) // max(1, n_det))
        det_seeds = done[::step][:n_det]
        dq: list[list] = [[] for _ in range(nworkers)]
        for j, s in enumerate(det_seeds):
            g = seeds.index(s) // k
            w = (g + 1 + (j % max(1, nworkers - 1))) % nworkers
            if nworkers > 1 and w == g % nworkers:
                w = (w + 1) % nworkers
            dq[w].append(("run", s, spec_seed_of[s], None, None))
        det: dict[int, dict] = {}

        def on_det(msg, task):
            if msg[0] == "result":
                det[msg[1]] = msg[2]

        det_deadline = boot.REAL_TIME() + max(30.0, wall * 0.5)
        pool.map_tasks(dq, on_det, det_deadline, hard)
        mismatches = []
        pairs = 0
        for s, r2 in det.items():
            r1 = results[s]
            if r2["status"] not in ("ok", "violation"):
                continue
            pairs += 1
            if r1["digest"] != r2["digest"] or r1["status"] != r2["status"]:
                mismatches.append(s)

        # ---- classify violations -------------------------------------------
        own_by_sig: dict[str, list[int]] = {}
        other_props: Counter = Counter()
        for s in seeds:
            r = results.get(s)
            if not r:
                continue
            for v in r["violations"]:
                if v["property"] == prop:
                    own_by_sig.setdefault(v["signature"], []).append(s)
                else:
                    other_props[v["signature"]] += 1
        known_seen: dict[str, dict] = {}
        unknown: dict[str, list[int]] = {}
        for sig, ss in own_by_sig.items():
            km = known_match(known, prop, sig)
            if km:
                known_seen[sig] = {"what": km.get("what", ""), "runs": len(ss), "first_seed": ss[0]}
            else:
                unknown[sig] = ss

        # ---- shrink + replay files for unlisted signatures -------------------
        replay_paths: dict[str, str] = {}
        replay_ok: dict[str, bool] = {}
        if unknown:
            os.makedirs(os.path.join(VERIF, "replays"), exist_ok=True)
            sq: list[list] = [[] for _ in range(nworkers)]
            budget = float(cfg.get("shrink_budget_s", 40.0))
            sigs = list(unknown.items())[: int(cfg.get("max_shrinks", 8))]
            for j, (sig, ss) in enumerate(sigs):
                s = ss[0]
                sq[j % nworkers].append(("shrink", s, spec_seed_of[s], results[s]["trace"], sig, budget))
            shrunk: dict = {}

            def on_shrunk(msg, task):
                if msg[0] == "shrunk":
                    shrunk[msg[1]] = (msg[2], msg[3], msg[4])

            pool.map_tasks(sq, on_shrunk, None, budget * 4 + hard)
            vq: list[list] = [[] for _ in range(nworkers)]
            for j, (sig, ss) in enumerate(unknown.items()):
                s = ss[0]
                r = results[s]
                tr, nexec, rmin = shrunk.get((s, sig), (r["trace"], 0, r))
                vmin = [v for v in rmin["violations"] if v["signature"] == sig]
                safe = sig.replace("/", "_").replace(":", "_").replace(" ", "_")[:80]
                path = os.path.join(VERIF, "replays", "%s-%d-%s.json" % (prop, s, safe))
                doc = {
                    "property": prop,
                    "simulator": sim_name,
                    "tier": tier,
                    "seed": s,
                    "spec_seed": spec_seed_of[s],
                    "cfg": {kk: vv for kk, vv in cfg.items() if isinstance(vv, (int, float, str, bool, list, dict, type(None)))},
                    "signature": sig,
                    "violation": (vmin or [v for v in r["violations"] if v["signature"] == sig])[0],
                    "trace": tr,
                    "original_trace_len": sum(len(x) for x in r["trace"].values()),
                    "minimised_trace_len": sum(len(x) for x in tr.values()),
                    "shrink_executions": nexec,
                    "ops": rmin["ops"],
                    "expected_digest": rmin["digest"],
                    "hashseed": boot.HASHSEED,
                    "other_runs_with_signature": ss[1:20],
                }
                with open(path, "w") as f:
                    json.dump(doc, f, indent=1, default=str)
                replay_paths[sig] = path
                vq[(j + 3) % nworkers].append(("run", s, spec_seed_of[s], tr, {"_sig": sig}))
            ver: dict = {}

            def on_ver(msg, task):
                if msg[0] == "result":
                    ver[task[4]["_sig"]] = msg[2]

            pool.map_tasks(vq, on_ver, None, hard)
            for sig in unknown:
                r = ver.get(sig)
                replay_ok[sig] = bool(r) and any(v["signature"] == sig for v in r["violations"])
    finally:
        pool.close()

    # ---- aggregate coverage ------------------------------------------------
    statuses = Counter(r["status"] for r in results.values())
    executed = [r for r in results.values() if r["status"] in ("ok", "violation")]
    faults: Counter = Counter()
    probes: Counter = Counter()
    states: set = set()
    nontrivial_digests: set = set()
    vtime = 0.0
    steps = 0
    for r in executed:
        faults.update(r["faults"])
        probes.update(r["probes"])
        states.update(r["states"])
        vtime += r["vtime"]
        steps += r["steps"]
        if r["nontrivial"]:
            nontrivial_digests.add(r["digest"])
    samples = []
    nt = [r for r in executed if r["nontrivial"]]
    for r in (nt[:: max(1, len(nt) // 4)] or executed[:2])[:4]:
        samples.append({"seed": r["seed"], "ops": r["ops"][:40], "faults": r["faults"], "info": r["info"]})
    wall_total = boot.REAL_TIME() - t_start
    n_exec = len(executed)
    walls = sorted(r["wall"] for r in results.values())
    if os.environ.get("VERIF_DEBUG") and walls:
        print("DEBUG run wall: mean=%.3f p50=%.3f p90=%.3f p99=%.3f max=%.3f sum=%.1f main_wall=%.1f" % (sum(walls) / len(walls), walls[len(walls) // 2], walls[int(len(walls) * 0.9)], walls[int(len(walls) * 0.99)], walls[-1], sum(walls), main_wall))
        slow = sorted(results.values(), key=lambda r: -r["wall"])[:5]
        for r in slow:
            print("DEBUG slow seed=%s wall=%.2f status=%s err=%s ops=%s" % (r["seed"], r["wall"], r["status"], r["error"], r["ops"][:2]))
    inconclusive = statuses.get("inconclusive", 0)
    harness_errors = [r for r in results.values() if r["status"] == "harness_error"]

    exit_code = 0
    lines = []
    for sig, info in known_seen.items():
        lines.append("KNOWN-FINDING: property=%s %s [signature=%s runs=%d first_seed=%d]" % (prop, info["what"], sig, info["runs"], info["first_seed"]))
    for sig, ss in unknown.items():
        lines.append("VIOLATION property=%s replay=%s signature=%s runs=%d replay_reproduces=%s" % (prop, replay_paths.get(sig, "?"), sig, len(ss), replay_ok.get(sig)))
        exit_code = 1
    harness_msgs = []
    warn_msgs = []
    if mismatches:
        msg = "determinism mismatches for seeds %s (%d of %d re-executed runs)" % (mismatches[:10], len(mismatches), pairs)
        # isolated mismatches are reported (evidence + warning line); only systematic
        # nondeterminism makes the batch untrustworthy
        if len(mismatches) > max(1, 0.1 * pairs):
            harness_msgs.append(msg)
        else:
            warn_msgs.append(msg)
    if harness_errors:
        harness_msgs.append("%d harness errors, first: seed=%s %s" % (len(harness_errors), harness_errors[0]["seed"], (harness_errors[0]["error"] or "")[-1500:]))
    if n_exec == 0:
        harness_msgs.append("no run executed")
    elif inconclusive > 0.6 * (n_exec + inconclusive):
        # wall-clock timeouts depend on machine load, never on the code under test alone: only an
        # extreme rate makes the batch meaningless
        harness_msgs.append("inconclusive rate too high: %d of %d" % (inconclusive, n_exec + inconclusive))
    if unknown and not all(replay_ok.values()):
        harness_msgs.append("a replay file did not reproduce its violation: %s" % {k: v for k, v in replay_ok.items() if not v})
    if harness_msgs and exit_code == 0:
        exit_code = 2

    evidence = {
        "property_id": prop,
        "tier": tier,
        "seed": base_seed,
        "level": "exploration",
        "coverage": {
            "evaluations": n_exec,
            "distinct_nontrivial": len(nontrivial_digests),
            "rule": meta.get("rule", ""),
            "samples": samples,
            "simulator": sim_name,
            "runs_requested": n_runs,
            "runs_dropped_by_wall_budget": dropped,
            "runs_skipped_spec_poisoned": statuses.get("skipped", 0),
            "runs_per_hour": int(n_exec / max(main_wall, 1e-6) * 3600),
            "seeds": {"first": seeds[0], "last_executed": max([r["seed"] for r in executed], default=None), "formula": "VERIF_SEED*1000003+i"},
            "virtual_time_s": round(vtime, 3),
            "logical_steps": steps,
            "fault_counts": dict(sorted(faults.items())),
            "probes": dict(sorted(probes.items())),
            "probes_at_zero": sorted(p for p in meta.get("expected_probes", []) if not probes.get(p) and p not in cfg.get("probes_not_expected", ())),
            "distinct_states": len(states),
            "state_measure": meta.get("state_measure", ""),
            "components": meta.get("components", {}),
            "determinism": {"pairs": pairs, "mismatches": len(mismatches), "method": "same seed re-executed in a different forked worker; sha256 of the normalised event log compared", "hashseed": boot.HASHSEED},
            "statuses": dict(statuses),
            "inconclusive": inconclusive,
            "known_findings_seen": known_seen,
            "observations_about_other_properties": dict(other_props.most_common(10)),
            "violations": {sig: {"runs": len(ss), "replay": replay_paths.get(sig), "replay_reproduces": replay_ok.get(sig)} for sig, ss in unknown.items()},
            "front_end_memo": "ANTLR parse tree memoised per spec text inside each worker",
            "bounds": meta.get("bounds", {}),
            "harness_messages": harness_msgs + warn_msgs,
        },
        "assumptions": meta.get("assumptions", []),
        "wall_s": round(wall_total, 2),
        "violations": len(unknown),
    }
    for ln in lines:
        print(ln)
    for m in harness_msgs:
        print("HARNESS-ERROR: " + m)
    for m in warn_msgs:
        print("HARNESS-WARNING: " + m)
    print(
        "summary %s[%s]: executed=%d nontrivial_distinct=%d inconclusive=%d dropped=%d known=%d violations=%d determinism=%d/%d wall=%.1fs runs/h=%d"
        % (prop, sim_name, n_exec, len(nontrivial_digests), inconclusive, dropped, len(known_seen), len(unknown), pairs - len(mismatches), pairs, wall_total, evidence["coverage"]["runs_per_hour"]),
        flush=True,
    )
    return exit_code, evidence


def run_check(prop: str, batches: list, tier: str) -> int:
    """batches: [(sim_name, cfg, meta)]; the first is the primary simulator of the property, further
    ones (e.g. tier B of C20) are run after it and reported inside the same evidence file."""
    codes = []
    evidence = None
    for i, (sim_name, cfg, meta) in enumerate(batches):
        code, ev = run_batch(prop, sim_name, tier, cfg, meta)
        codes.append(code)
        if evidence is None:
            evidence = ev
        else:
            c0, c1 = evidence["coverage"], ev["coverage"]
            c0.setdefault("further_simulators", {})[sim_name] = c1
            c0["evaluations"] += c1["evaluations"]
            c0["distinct_nontrivial"] += c1["distinct_nontrivial"]
            c0["samples"] = c0["samples"] + c1["samples"][:2]
            evidence["wall_s"] = round(evidence["wall_s"] + ev["wall_s"], 2)
            evidence["violations"] += ev["violations"]
    # evidence describes /repo itself: a run against another source tree (sensitivity self-test,
    # VERIF_REPO_SRC) writes its report to the git-ignored scratch directory instead
    foreign = os.path.realpath(boot.REPO_SRC) != os.path.realpath("/repo/src")
    ev_dir = os.path.join(VERIF, "scratch", "evidence-foreign-tree") if foreign else os.path.join(VERIF, "evidence")
    os.makedirs(ev_dir, exist_ok=True)
    with open(os.path.join(ev_dir, prop + ".json"), "w") as f:
        json.dump(evidence, f, indent=1, default=str)
    if 1 in codes:
        return 1
    if 2 in codes:
        return 2
    return 0


def replay_file(path: str) -> int:
    with open(path) as f:
        doc = json.load(f)
    boot.boot()
    boot.warm_front_end()
    sim = load_sim(doc["simulator"])
    cfg = dict(doc["cfg"])
    cfg["keep_events"] = True
    r = execute(sim, doc["property"], doc["seed"], doc["spec_seed"], cfg, replay=doc["trace"])
    hit = [v for v in r["violations"] if v["signature"] == doc["signature"]]
    print("replay %s: status=%s digest=%s expected=%s" % (path, r["status"], r["digest"][:16], doc.get("expected_digest", "")[:16]))
    for o in r["ops"]:
        print("  op: " + o)
    if r["info"].get("raised_traceback"):
        print(r["info"]["raised_traceback"])
    if hit:
        print("REPRODUCED property=%s signature=%s" % (doc["property"], doc["signature"]))
        print("  " + hit[0]["detail"][:1500])
        print("  digest_equal=%s" % (r["digest"] == doc.get("expected_digest")))
        return 1
    print("NOT-REPRODUCED (violations now: %s; error=%s)" % ([v["signature"] for v in r["violations"]], r["error"]))
    return 0
