"""Per-run context handed to a simulator: decisions in, events/violations/coverage out."""

from __future__ import annotations

import hashlib
import re
from collections import Counter
from typing import Any, Optional

from .choices import Choices


class WallTimeout(BaseException):
    """Raised by the per-run wall-clock watchdog (BaseException: the product's
    ``except Exception`` blocks must not swallow it)."""


class StepCap(BaseException):
    """Raised by a simulator when a per-run step / virtual-time cap is exceeded."""


class HarnessError(Exception):
    """The harness itself misbehaved (never a property violation)."""


_RE_ID = re.compile(r"___fandango_\d+_(\d+)___")
_RE_UUID = re.compile(r"[0-9a-f]{8}-[0-9a-f]{4}-[0-9a-f]{4}-[0-9a-f]{4}-[0-9a-f]{12}")
_RE_ADDR = re.compile(r"0x[0-9a-f]{6,16}")


def norm(s: Any) -> str:
    """Normalise text that may embed id()s, uuids or addresses."""
    s = s if isinstance(s, str) else repr(s)
    s = _RE_ID.sub(r"___fandango_ID_\1___", s)
    s = _RE_UUID.sub("UUID", s)
    s = _RE_ADDR.sub("0xADDR", s)
    return s


class Run:
    def __init__(self, ch: Choices, cfg: dict, prop: str):
        self.ch = ch
        self.cfg = cfg
        self.prop = prop  # the property whose check is running (deciding monitors)
        self._h = hashlib.sha256()
        self.n_events = 0
        self.faults: Counter = Counter()
        self.probes: Counter = Counter()
        self.violations: list[dict] = []
        self.states: set = set()
        self.nontrivial = False
        self.ops: list[str] = []
        self.vtime = 0.0
        self.steps = 0
        self.info: dict = {}
        self.keep_events = bool(cfg.get("keep_events"))
        self.event_log: list = []

    # -- event log ---------------------------------------------------------
    def event(self, kind: str, *payload: Any) -> None:
        self.n_events += 1
        rec = "%d|%s|%s" % (self.n_events, kind, "|".join(norm(p) for p in payload))
        self._h.update(rec.encode("utf-8", "backslashreplace"))
        self._h.update(b"\n")
        if self.keep_events:
            self.event_log.append(rec)

    def digest(self) -> str:
        return self._h.hexdigest()

    # -- human readable operation / fault list (goes into samples and replays)
    def op(self, text: str) -> None:
        if len(self.ops) < 400:
            self.ops.append(text)
        self.event("op", text)

    def fault(self, kind: str, n: int = 1) -> None:
        self.faults[kind] += n

    def probe(self, name: str, n: int = 1) -> None:
        self.probes[name] += n

    def state(self, key: Any) -> None:
        self.states.add(hash(key) & 0xFFFFFFFFFFFF if not isinstance(key, int) else key)

    # -- verdicts ------------------------------------------------------------
    def violation(self, prop: str, cls: str, signature: str, detail: str) -> None:
        """Record a violation of property ``prop``.  Only violations of the check's
        own property decide the check; the others are counted as observations."""
        v = {
            "property": prop,
            "class": cls,
            "signature": "%s/%s" % (prop, signature),
            "detail": norm(detail)[:2000],
            "at_event": self.n_events,
        }
        self.event("violation", prop, cls, signature)
        self.violations.append(v)

    def own_violations(self) -> list[dict]:
        return [v for v in self.violations if v["property"] == self.prop]
