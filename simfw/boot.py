"""Process bootstrap: take ownership of the ambient seams *before* fandango is imported.

* PYTHONHASHSEED is pinned (re-exec) so that str/bytes hashing -- and with it the
  iteration order of every set of structurally hashed objects -- is a function of
  the configuration, not of the interpreter start.
* ``time.time / time.monotonic / time.sleep / time.perf_counter`` of the *real*
  ``time`` module are replaced by dispatchers: while a simulation has installed a
  virtual clock they read/advance it, otherwise they fall through to the originals.
  Patching the module object itself keeps this robust against ``from time import
  sleep`` style refactors in the product.
* ``sys.path`` puts the working tree (``VERIF_REPO_SRC`` or /repo/src) first, so
  checks always run what is in /repo now, never the stale copy in site-packages.
* The .fan front end is forced to the pure-Python parser; its ANTLR parse tree is
  memoised per spec text (a pure function of the text, ~0.5 s per rule), so that
  many fresh spec *objects* of one text are cheap.
* ``fandango.logger.print_exception`` is wrapped in every importer so that every
  exception the product swallows becomes an event the simulators can see.
"""

from __future__ import annotations

import os
import sys
import time as _time

REAL_TIME = _time.time
REAL_MONOTONIC = _time.monotonic
REAL_SLEEP = _time.sleep
REAL_PERF = _time.perf_counter

HASHSEED = os.environ.get("VERIF_HASHSEED", "0")
REPO_SRC = os.environ.get("VERIF_REPO_SRC", "/repo/src")
VERIF_DIR = os.path.dirname(os.path.dirname(os.path.abspath(__file__)))


def ensure_env(argv=None) -> None:
    """Re-exec the interpreter with the pinned hash seed and a clean environment."""
    if os.environ.get("PYTHONHASHSEED") == HASHSEED and os.environ.get("VERIF_BOOTED") == "1":
        return
    env = dict(os.environ)
    env["PYTHONHASHSEED"] = HASHSEED
    env["VERIF_BOOTED"] = "1"
    env.pop("FANDANGO_RAISE_ALL_EXCEPTIONS", None)  # simulate the production path
    env["FANDANGO_DISABLE_VISUALIZATION"] = "1"
    env["PYTHONDONTWRITEBYTECODE"] = "1"
    argv = list(sys.argv if argv is None else argv)
    os.execve(sys.executable, [sys.executable] + argv, env)


# ----------------------------------------------------------------------------
# virtual clock seam
# ----------------------------------------------------------------------------
class _ClockSeam:
    """Dispatcher installed on the real ``time`` module."""

    def __init__(self):
        self.active = None  # object with now(), sleep(d)

    def time(self):
        a = self.active
        if a is None:
            return REAL_TIME()
        return a.now()

    def monotonic(self):
        a = self.active
        if a is None:
            return REAL_MONOTONIC()
        return a.now()

    def perf_counter(self):
        a = self.active
        if a is None:
            return REAL_PERF()
        return a.now()

    def sleep(self, d):
        a = self.active
        if a is None:
            return REAL_SLEEP(d)
        return a.sleep(d)


CLOCK = _ClockSeam()
_booted = False
EXC_SINK = []  # list of callables(e, note) -- the active run's recorder
PARSE_TREE_MEMO: dict = {}
PARSE_TREE_STATS = {"hits": 0, "misses": 0}


def install_clock() -> None:
    _time.time = CLOCK.time
    _time.monotonic = CLOCK.monotonic
    _time.sleep = CLOCK.sleep
    _time.perf_counter = CLOCK.perf_counter


def _wrap_print_exception():
    import fandango.logger as flog

    orig = flog.print_exception

    def print_exception(e, exception_note=None):  # same signature as the product's
        for sink in EXC_SINK:
            try:
                sink(e, exception_note)
            except Exception:  # a recorder must never disturb the product
                pass
        # the production behaviour: note + log, no re-raise (env var unset)
        if exception_note is not None and getattr(Exception, "add_note", None):
            try:
                e.add_note(exception_note)
            except Exception:
                pass
        if os.environ.get("FANDANGO_RAISE_ALL_EXCEPTIONS"):
            raise e

    print_exception.__wrapped__ = orig
    n = 0
    for name, mod in list(sys.modules.items()):
        if not name.startswith("fandango") or mod is None:
            continue
        for attr, val in list(vars(mod).items()):
            if val is orig:
                setattr(mod, attr, print_exception)
                n += 1
    return n


# ----------------------------------------------------------------------------
# on-disk cache of ANTLR parse trees (optimisation only; VERIF_PTCACHE=0 switches it off)
# ----------------------------------------------------------------------------
_PTCACHE_DIR = None


def _ptcache_dir():
    """scratch/ptcache/<key>: key covers everything that decides the parse tree of a text -- the
    generated lexer/parser, parse_tree.py and the ANTLR runtime version of the tree under test."""
    global _PTCACHE_DIR
    if _PTCACHE_DIR is None:
        import glob
        import hashlib

        h = hashlib.sha1()
        files = sorted(glob.glob(os.path.join(REPO_SRC, "fandango", "language", "parser", "*.py")))
        files += sorted(glob.glob(os.path.join(REPO_SRC, "fandango", "language", "parse", "parse_tree.py")))
        for fn in files:
            h.update(fn[len(REPO_SRC) :].encode())
            with open(fn, "rb") as f:
                h.update(f.read())
        try:
            import importlib.metadata as _md

            h.update(_md.version("antlr4-python3-runtime").encode())
        except Exception:
            pass
        d = os.path.join(VERIF_DIR, "scratch", "ptcache", h.hexdigest()[:16])
        try:
            os.makedirs(d, exist_ok=True)
        except OSError:
            d = ""
        _PTCACHE_DIR = d
    return _PTCACHE_DIR


def _ptcache_load(text: str):
    d = _ptcache_dir()
    if not d:
        return None
    import hashlib
    import pickle

    fn = os.path.join(d, hashlib.sha1(text.encode("utf-8", "surrogatepass")).hexdigest() + ".pkl")
    try:
        with open(fn, "rb") as f:
            src, tree = pickle.load(f)
        return tree if src == text else None
    except Exception:
        return None


def _ptcache_store(text: str, tree) -> None:
    d = _ptcache_dir()
    if not d:
        return
    import hashlib
    import io
    import pickle

    from antlr4 import InputStream, Lexer, Parser
    from antlr4.BufferedTokenStream import TokenStream
    from antlr4.tree.Tree import TerminalNodeImpl

    class _P(pickle.Pickler):
        def reducer_override(self, obj):
            # the tree keeps references to its parser, lexer and streams: not part of the result
            if isinstance(obj, (Parser, Lexer, InputStream, TokenStream, io.IOBase)):
                return (type(None), ())
            return NotImplemented

    try:
        # token texts are read lazily from the input stream: materialise them first
        stack = [tree]
        while stack:
            n = stack.pop()
            if isinstance(n, TerminalNodeImpl):
                toks = [n.symbol]
            else:
                toks = [getattr(n, "start", None), getattr(n, "stop", None)]
                stack.extend(n.children or [])
            for tok in toks:
                if tok is not None and getattr(tok, "_text", 0) is None:
                    tok._text = tok.text
        buf = io.BytesIO()
        old = sys.getrecursionlimit()
        sys.setrecursionlimit(max(old, 20000))
        try:
            _P(buf, protocol=4).dump((text, tree))
        finally:
            sys.setrecursionlimit(old)
        fn = os.path.join(d, hashlib.sha1(text.encode("utf-8", "surrogatepass")).hexdigest() + ".pkl")
        tmp = "%s.%d.tmp" % (fn, os.getpid())
        with open(tmp, "wb") as f:
            f.write(buf.getvalue())
        os.replace(tmp, fn)
    except Exception:
        pass


def boot(quiet: bool = True):
    """Idempotent.  Returns the imported ``fandango`` package."""
    global _booted
    if _booted:
        import fandango

        return fandango
    if REPO_SRC not in sys.path[:1]:
        sys.path.insert(0, REPO_SRC)
    if VERIF_DIR not in sys.path:
        sys.path.insert(1, VERIF_DIR)
    install_clock()
    import logging
    import warnings

    warnings.filterwarnings("ignore")
    import fandango

    assert os.path.realpath(fandango.__file__).startswith(os.path.realpath(REPO_SRC)), (
        "fandango imported from %s, expected %s" % (fandango.__file__, REPO_SRC)
    )
    from fandango import Fandango

    Fandango.parser = "python"
    import fandango.language.parse.parse_spec as ps

    orig_parse_tree = ps.parse_tree

    def memo_parse_tree(filename, fan_contents):
        key = fan_contents
        t = PARSE_TREE_MEMO.get(key)
        if t is None and os.environ.get("VERIF_PTCACHE", "1") != "0":
            t = _ptcache_load(fan_contents)
            if t is not None:
                PARSE_TREE_STATS["disk_hits"] = PARSE_TREE_STATS.get("disk_hits", 0) + 1
                if len(PARSE_TREE_MEMO) > 5000:
                    PARSE_TREE_MEMO.pop(next(iter(PARSE_TREE_MEMO)))
                PARSE_TREE_MEMO[key] = t
                return t
        if t is None:
            PARSE_TREE_STATS["misses"] += 1
            # the front end must see real time (it only logs durations)
            saved = CLOCK.active
            CLOCK.active = None
            # the (pure-Python ANTLR) front end is not what a run's wall-clock cap is meant to bound:
            # suspend the per-run watchdog while a statement is parsed for the first time
            import signal

            remaining, _ = signal.getitimer(signal.ITIMER_REAL)
            if remaining:
                signal.setitimer(signal.ITIMER_REAL, 0)
            try:
                t = orig_parse_tree(filename, fan_contents)
            finally:
                CLOCK.active = saved
                if remaining:
                    signal.setitimer(signal.ITIMER_REAL, remaining)
            if len(PARSE_TREE_MEMO) > 5000:
                PARSE_TREE_MEMO.pop(next(iter(PARSE_TREE_MEMO)))
            PARSE_TREE_MEMO[key] = t
            if os.environ.get("VERIF_PTCACHE", "1") != "0":
                _ptcache_store(fan_contents, t)
        else:
            PARSE_TREE_STATS["hits"] += 1
        return t

    ps.parse_tree = memo_parse_tree
    # import everything the simulators touch so that print_exception importers exist
    import fandango.evolution.algorithm  # noqa
    import fandango.evolution.evaluation  # noqa
    import fandango.constraints.comparison  # noqa
    import fandango.constraints.expression  # noqa
    import fandango.constraints.soft  # noqa
    import fandango.language.parse.spec  # noqa
    import fandango.io.packetparser  # noqa

    _wrap_print_exception()
    install_serial_hashes()
    # fandango.version() re-reads the package metadata on every parsed .fan file (3 ms each): a pure
    # function of the installation, memoised here
    try:
        import functools
        import importlib.metadata as _md

        _md.version = functools.lru_cache(maxsize=None)(_md.version)
    except Exception:
        pass
    if quiet:
        logging.getLogger("fandango").setLevel(logging.CRITICAL)
        logging.getLogger("fandango").propagate = False
        logging.getLogger("fandango").handlers = [logging.NullHandler()]
    _booted = True
    return fandango


# ----------------------------------------------------------------------------
# address-based hashing seam (S8): objects that inherit object.__hash__ and are put
# into sets by the product get a per-object serial instead of their address, so the
# iteration order of such sets is a replayable function of the run (and of a seeded
# permutation that ReproSim varies on purpose) instead of an accident of the allocator.
# ----------------------------------------------------------------------------
_SERIAL = {"next": 0, "mult": 1, "add": 0}
_SERIAL_CLASSES: list = []


def _serial_hash(self):
    d = self.__dict__
    h = d.get("_verif_serial")
    if h is None:
        h = d["_verif_serial"] = _SERIAL["next"]
        _SERIAL["next"] += 1
    return ((h * _SERIAL["mult"]) + _SERIAL["add"]) & 0x3FFFFFFF


def install_serial_hashes() -> list:
    import fandango.io as fio
    import fandango.language.grammar.nodes.alternative as m1
    import fandango.language.grammar.nodes.concatenation as m2
    import fandango.language.grammar.nodes.repetition as m3
    import fandango.language.grammar.nodes.char_set as m4
    import fandango.language.grammar.nodes.node as m0

    classes = [m0.Node, fio.FandangoParty]
    done = []
    for c in classes:
        if "__hash__" not in c.__dict__:
            c.__hash__ = _serial_hash
            done.append(c.__name__)
    # subclasses that define __eq__ without __hash__ would be unhashable; leave them alone
    _SERIAL_CLASSES[:] = done
    return done


def reset_serials(perm_seed: int = 0) -> None:
    _SERIAL["next"] = 0
    if perm_seed:
        _SERIAL["mult"] = (perm_seed * 2 + 1) % 1000003 or 1
        _SERIAL["add"] = (perm_seed * 7919) & 0xFFFF
    else:
        _SERIAL["mult"] = 1
        _SERIAL["add"] = 0


_DEFAULTS: dict = {}


def reset_process_globals() -> None:
    """Every simulated run starts from the same process-global state (S7): what an earlier
    run in this worker did must not be visible (IsolationSim studies these leaks on purpose
    and manipulates them itself)."""
    import fandango.io as fio
    import fandango.language.grammar.nodes as nodes

    if "MAX_REPETITIONS" not in _DEFAULTS:
        _DEFAULTS["MAX_REPETITIONS"] = nodes.MAX_REPETITIONS
    nodes.MAX_REPETITIONS = _DEFAULTS["MAX_REPETITIONS"]
    fio.FandangoIO._instances.clear()
    fio.ProcessManager._instances.clear()
    try:
        fio.CURRENT_ENV_KEY.contextVar.set(None)
    except Exception:
        pass


def warm_front_end() -> None:
    """Parse one small spec so that forked workers inherit a warm ANTLR DFA cache."""
    from fandango import Fandango

    Fandango(
        "<start> ::= <a> ';' <b>{1,2} | 'x'*\n<a> ::= r'[0-9]+' := str(1)\n<b> ::= <a>? 'y'+ b'z' 0 1\nwhere int(<a>) >= 0\n"
        "where forall <x> in <b>: str(<x>) != 'q'\nwhere int(<a>) % 2 == 0\nfrom simfw.bridge import gen, on_send\n",
        use_stdlib=False,
        logging_level=50,
    )


def quiet_logger():
    import logging

    lg = logging.getLogger("fandango")
    lg.setLevel(logging.CRITICAL)
