"""Discrete-event virtual time.

The product reads ``time.time()`` and calls ``time.sleep()`` (boot.py routes both here while
a simulation is active).  ``sleep(d)`` advances the clock by d and runs every event that
became due -- that is the only place where simulated peers/transports act, apart from the
explicit pre-emption points a simulator adds (wrapped buffer accessors call ``tick``).
Events are ordered by (time, sequence number): a total order, so a run is a pure function
of the decision stream.
"""

from __future__ import annotations

import heapq
from typing import Callable

from .run import StepCap


class VClock:
    def __init__(self, run, t0: float = 1_700_000_000.0, max_vtime: float = 600.0, max_events: int = 200_000):
        self.run = run
        self.t0 = t0
        self.t = t0
        self.seq = 0
        self.q: list = []
        self.max_vtime = max_vtime
        self.max_events = max_events
        self.n_events = 0
        self.n_sleeps = 0
        self.in_dispatch = False

    # -- what the product sees ---------------------------------------------
    def now(self) -> float:
        return self.t

    def sleep(self, d: float) -> None:
        self.n_sleeps += 1
        self.advance(max(0.0, float(d)))

    # -- what the simulator uses ----------------------------------------------
    def elapsed(self) -> float:
        return self.t - self.t0

    def after(self, delay: float, fn: Callable[[], None], label: str = "") -> None:
        self.seq += 1
        heapq.heappush(self.q, (self.t + max(0.0, delay), self.seq, fn, label))

    def advance(self, d: float) -> None:
        """Move time forward by d, dispatching due events in order."""
        target = self.t + d
        if self.in_dispatch:
            # nested sleep from inside an event handler: just move the clock
            self.t = target
            return
        self.in_dispatch = True
        try:
            while self.q and self.q[0][0] <= target:
                at, _seq, fn, _label = heapq.heappop(self.q)
                if at > self.t:
                    self.t = at
                self.n_events += 1
                if self.n_events > self.max_events:
                    raise StepCap("event cap")
                fn()
            self.t = max(self.t, target)
        finally:
            self.in_dispatch = False
        self.run.vtime = self.elapsed()
        if self.elapsed() > self.max_vtime:
            raise StepCap("virtual time cap %.0fs" % self.max_vtime)

    def tick(self, eps: float) -> None:
        """A pre-emption point that costs ``eps`` of virtual time."""
        self.advance(eps)
