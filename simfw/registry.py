"""property id -> (simulator module, per-tier configuration)."""

GRAMMAR_DEFAULT = {"max_rules": 5, "min_rules": 2, "modes": ["text", "text", "bytes", "bits"], "max_depth": 2, "computed_reps": True}

CHECKS = {
    "C20": {
        "further": [{
        "sim": "socksim",
        "quick": {"runs": 20000, "wall_s": 60, "runs_per_spec": 12, "run_wall_cap": 20, "proto": {}, "faults": True},
        "thorough": {"runs": 400000, "wall_s": 1200, "runs_per_spec": 20, "run_wall_cap": 30, "proto": {"max_types": 7}, "faults": True},
    }],
        "sim": "protosim",
        "quick": {"runs": 20000, "wall_s": 80, "runs_per_spec": 12, "run_wall_cap": 20, "proto": {}, "faults": True, "probes_not_expected": ["walk_step"]},
        "thorough": {"runs": 400000, "wall_s": 1500, "runs_per_spec": 20, "run_wall_cap": 30, "proto": {"max_types": 7, "max_states": 4}, "faults": True, "probes_not_expected": ["walk_step"]},
    },
    "C19": {
        "sim": "protosim",
        "quick": {"runs": 20000, "wall_s": 80, "runs_per_spec": 12, "run_wall_cap": 20, "proto": {}, "faults": True, "walk_rate": 0.5, "walk_len": 12},
        "thorough": {"runs": 400000, "wall_s": 1500, "runs_per_spec": 20, "run_wall_cap": 30, "proto": {"max_types": 7, "max_states": 4}, "faults": True, "walk_rate": 0.5, "walk_len": 16},
    },
    "C01": {"sim": "searchsim", "quick": {"runs": 20000, "wall_s": 70, "runs_per_spec": 12, "run_wall_cap": 25, "spec": {"pair_rate": 0.6, "prefer_kinds": ["eq", "nested-eq", "eq-bounded"]}}, "thorough": {"runs": 400000, "wall_s": 1500, "runs_per_spec": 20, "run_wall_cap": 40, "spec": {"max_h": 7, "max_r": 5, "body_rules": 4, "pair_rate": 0.6, "prefer_kinds": ["eq", "nested-eq", "eq-bounded"]}}},
    "C02": {"sim": "searchsim", "quick": {"runs": 20000, "wall_s": 70, "runs_per_spec": 12, "run_wall_cap": 25, "spec": {"raising_rate": 0.6, "prefer_kinds": ["raising", "index"]}}, "thorough": {"runs": 400000, "wall_s": 1500, "runs_per_spec": 30, "run_wall_cap": 40, "spec": {"max_h": 7, "max_r": 5, "body_rules": 4, "raising_rate": 0.6, "prefer_kinds": ["raising", "index"]}}},
    "C03": {"sim": "searchsim", "quick": {"runs": 20000, "wall_s": 70, "runs_per_spec": 12, "run_wall_cap": 25, "spec": {"inexact_pair_rate": 0.5, "raising_rate": 0.0, "many_matches_rate": 0.5}}, "thorough": {"runs": 400000, "wall_s": 1500, "runs_per_spec": 30, "run_wall_cap": 40, "spec": {"max_h": 7, "max_r": 5, "inexact_pair_rate": 0.5, "raising_rate": 0.0, "many_matches_rate": 0.5}}},
    "C11": {"sim": "searchsim", "quick": {"runs": 20000, "wall_s": 70, "runs_per_spec": 12, "run_wall_cap": 25, "spec": {"raising_rate": 0.4, "prefer_kinds": ["forall", "exists", "python-global", "comprehension", "raising"]}}, "thorough": {"runs": 400000, "wall_s": 1500, "runs_per_spec": 20, "run_wall_cap": 40, "spec": {"max_h": 7, "max_r": 5, "body_rules": 4, "raising_rate": 0.4, "prefer_kinds": ["forall", "exists", "python-global", "comprehension", "raising"]}}},
    "C16": {"sim": "searchsim", "quick": {"runs": 20000, "wall_s": 70, "runs_per_spec": 12, "run_wall_cap": 25, "spec": {"generators": True, "gen_record_rate": 0.7}, "gen_fault_rate": 0.08}, "thorough": {"runs": 400000, "wall_s": 1500, "runs_per_spec": 30, "run_wall_cap": 40, "spec": {"max_h": 5, "max_r": 3, "gen_record_rate": 0.7}, "gen_fault_rate": 0.08}},
    "C09": {"sim": "treesim", "quick": {"runs": 60000, "wall_s": 45, "runs_per_spec": 1, "run_wall_cap": 10}, "thorough": {"runs": 600000, "wall_s": 1200, "runs_per_spec": 1, "run_wall_cap": 10}},
    "C10": {"further": [{"sim": "searchsim", "quick": {"runs": 20000, "wall_s": 45, "runs_per_spec": 25, "run_wall_cap": 25, "spec": {}}, "thorough": {"runs": 400000, "wall_s": 1200, "runs_per_spec": 30, "run_wall_cap": 40, "spec": {"max_h": 7, "max_r": 5}}}], "sim": "treesim", "quick": {"runs": 60000, "wall_s": 45, "runs_per_spec": 1, "run_wall_cap": 10}, "thorough": {"runs": 600000, "wall_s": 1200, "runs_per_spec": 1, "run_wall_cap": 10}},
    "C17": {"sim": "reprosim", "quick": {"runs": 4000, "wall_s": 70, "runs_per_spec": 12, "run_wall_cap": 60, "spec": {"max_h": 3, "max_r": 2, "body_rules": 2}}, "thorough": {"runs": 200000, "wall_s": 1500, "runs_per_spec": 16, "run_wall_cap": 90, "spec": {}}},
    "C18": {"sim": "isolationsim", "quick": {"runs": 4000, "wall_s": 70, "runs_per_spec": 10, "run_wall_cap": 60, "spec": {}}, "thorough": {"runs": 200000, "wall_s": 1500, "runs_per_spec": 12, "run_wall_cap": 90, "spec": {}}},
    "C12": {
        "sim": "parsesim",
        "quick": {"runs": 40000, "wall_s": 60, "runs_per_spec": 30, "run_wall_cap": 15, "grammar": dict(GRAMMAR_DEFAULT, max_rules=4)},
        "thorough": {"runs": 400000, "wall_s": 1500, "runs_per_spec": 40, "run_wall_cap": 15, "grammar": GRAMMAR_DEFAULT},
    },
    "C13": {
        "further": [{
            "sim": "protosim",
            "quick": {"runs": 20000, "wall_s": 45, "runs_per_spec": 12, "run_wall_cap": 20, "proto": {}, "faults": False, "probes_not_expected": ["walk_step"]},
            "thorough": {"runs": 400000, "wall_s": 900, "runs_per_spec": 20, "run_wall_cap": 30, "proto": {"max_types": 7, "max_states": 4}, "faults": False, "probes_not_expected": ["walk_step"]},
        }],
        "sim": "fragsim",
        "quick": {"runs": 60000, "wall_s": 60, "runs_per_spec": 40, "run_wall_cap": 10, "grammar": dict(GRAMMAR_DEFAULT, recursion_rate=0.3), "ambiguous_regex_rate": 0.1},
        "thorough": {"runs": 600000, "wall_s": 1500, "runs_per_spec": 60, "run_wall_cap": 10, "grammar": dict(GRAMMAR_DEFAULT, max_rules=7), "ambiguous_regex_rate": 0.15},
    },
}

_NOTE = "Seeded sampling, not enumeration: a clean batch is evidence, not proof. Trusted: the harness's own AST/derivation checker/reference models, CPython, and (where stated) Fandango code on *fresh* objects as reference."

MANIFEST_TEXT = {
    "C17": {
        "level": "Seeded exploration of (spec, settings, random seed) configurations, each executed in two sibling processes that differ only in perturbations the property says must not matter (clock origin/rate/jumps incl. backwards, heap layout, GC mode, order of identity-hashed sets via a seeded permutation, uuid env keys); ordered solutions, their trees and parse results must be identical; a difference is localised to one perturbation dimension by re-running with one dimension swapped.",
        "design_ref": "DESIGN.md §6.5",
        "note": _NOTE + " Quick tier: forked siblings of one warmed interpreter (same PYTHONHASHSEED).",
        "technique": "deterministic simulation with environment fault injection (clock jumps, address-layout noise, GC schedule, set-order permutation) and a two-run differential oracle",
    },
    "C18": {
        "level": "Seeded exploration of histories on other spec objects (create, fuzz with stagnation, parse, abandon generators, create IO-mode specs; B created before or after) followed by a fixed workload on B, compared with B alone in a sibling process; on a mismatch the leak channel is localised by restoring one process-global observable at a time.",
        "design_ref": "DESIGN.md §6.6",
        "note": _NOTE + " B is always a non-IO spec; both children are forks of the warmed worker with the known process globals reset.",
        "technique": "deterministic simulation of multi-instance histories in one process with a differential oracle against an isolated sibling process and channel localisation",
    },
    "C01": {
        "level": "Seeded exploration of search runs (generated grammar + constraints + computed repetitions + generators, swarm settings): every tree handed to the evaluator, every crossover child, every mutant, every emitted solution and the final population is checked by an independent derivation checker against the harness's own grammar AST. Exploration is the right level: the quantifier ranges over grammars, settings and operator histories.",
        "design_ref": "DESIGN.md §6.1",
        "note": _NOTE,
        "technique": "deterministic simulation of the evolutionary search as a stateful process (wrapped operators, seeded settings, consumer cancellation) with an independent derivation checker as per-step invariant",
    },
    "C02": {
        "level": "Seeded exploration of search runs in the production exception path (FANDANGO_RAISE_ALL_EXCEPTIONS unset) with constraint code that raises for a deterministic subset of trees: every emitted solution is re-judged by a second spec object with empty caches (an exception logged during that evaluation counts as unsatisfied) and by harness-side predicates for the simple templates.",
        "design_ref": "DESIGN.md §6.1",
        "note": _NOTE + " The independent evaluator reuses Fandango's constraint classes on fresh objects (constraint semantics are C07); harness predicates cover the simple templates.",
        "technique": "deterministic simulation of the search with injected call-back faults (raising constraint code) and an independent from-scratch evaluator on every emission",
    },
    "C03": {
        "level": "Seeded exploration with (h, r) as a swarm dimension (floating-point-inexact pairs oversampled, declaration order shuffled): for every evaluate_individual call, a tree that the independent evaluator and the harness predicates accept must be yielded at its first evaluation and never twice.",
        "design_ref": "DESIGN.md §6.1",
        "note": _NOTE + " The rounding half of C03 is a pure function of (h, r); the simulation contributes first-sight reporting under caches/de-duplication and the configuration sweep.",
        "technique": "deterministic simulation of the search with an exactly-once acceptance monitor on the evaluator, swept over constraint-count configurations",
    },
    "C09": {
        "level": "Seeded exploration of operation histories on a pool of real trees that share Terminal objects: after every operation all value conversions are compared with a pure fold over the leaves, with every earlier answer, and the shared Terminal values are checked for mutation.",
        "design_ref": "DESIGN.md §6.2",
        "note": _NOTE + " int() of text/bytes and unaligned trailing bits are checked for history independence only.",
        "technique": "deterministic simulation of tree-operation histories against a pure reference model (stateful model-based checking with seeded operation order)",
    },
    "C10": {
        "level": "Seeded exploration of operation histories (<= 40 operations on <= 6 trees, incl. operations that raise part-way) with the whole pool compared against pure model twins after every operation: size, hash, equality, parent links, node identity, inputs of read-only operations unchanged, results of copy/replace share no node with inputs; SearchSim additionally checks that search operators never modify their inputs.",
        "design_ref": "DESIGN.md §6.2",
        "note": _NOTE,
        "technique": "deterministic simulation of tree-operation histories against a pure reference model, plus alias monitors inside the simulated search",
    },
    "C11": {
        "level": "Seeded exploration: every result returned by evaluate_individual during simulated search runs (fitness, failing parts) is compared, with exact float equality, against a from-scratch evaluation of a deep copy by new constraint objects with empty caches.",
        "design_ref": "DESIGN.md §6.1",
        "note": _NOTE + " Specs without soft constraints only (as the property states).",
        "technique": "deterministic simulation of the search with a cache-coherence monitor (cached vs fresh evaluation) on every evaluator call",
    },
    "C16": {
        "level": "Seeded exploration with a generator ledger: generator expressions call back into the harness, which decides per invocation whether a fitting value, a misfit or an exception is returned; every evaluated/emitted/population tree must carry ledger values under generator symbols with read-only children, and an injected misfit/raise must surface as an error.",
        "design_ref": "DESIGN.md §6.1",
        "note": _NOTE + " Generators without parameters (regex-terminal or structured rule, also inside two same-shaped records tied by an equality constraint so that repair copies one into the other) and generators with one or two parameter symbols; nested generators (a generator inside another generator's rule) are not generated.",
        "technique": "deterministic simulation of the search with fault injection into generator call-backs and a ledger-based history check",
    },
    "C12": {
        "level": "Seeded exploration of request histories on one long-lived spec object (first-tree requests, whole forests, forests abandoned after k trees, API parse, prefix mode, other start symbols, control-flow requests, caller-side mutation of returned trees, fuzzing bursts) with each fully consumed request compared against the same request on a pristine spec object. Exploration is the right level because the quantifier ranges over all histories of requests.",
        "design_ref": "DESIGN.md §6.3",
        "note": _NOTE + " Reference for C12 is the same request on a pristine spec object (parser soundness itself is C04).",
        "technique": "deterministic simulation of request histories with cancellation faults (generator abandoned at a seeded yield point) and a differential oracle against a pristine instance",
    },
    "C19": {
        "level": "Seeded exploration: at every main-loop step of thousands of simulated protocol interactions (generated protocol grammars, scripted peers, faults, several interactions per session) the forecast (next (sender, recipient, type) options and the completeness flag) is compared with an independent message-level automaton derived from the harness's own AST. Exploration is the right level: the quantifier ranges over all protocol grammars and all reachable histories.",
        "design_ref": "DESIGN.md §6.7",
        "note": _NOTE + " Histories are those the simulated interactions reach (<= 14 messages); open-ended repetitions are treated as unbounded by the reference, Fandango caps them at 20, so interactions are cut before that. A discrepancy counts as a violation on *plain* protocol grammars (no message-level ambiguity: no alternatives/repetitions/nullable items competing for the same first message, no type sent by one party to two recipients); on the other ~25 % of the generated grammars the unchanged forecaster deviates occasionally (listed findings per structural feature), and a regression that shows only there is not detected (DESIGN.md 11.4, seed C19-4).",
        "technique": "deterministic simulation of protocol mode (virtual clock, scripted faulty peers, seeded fragmentation/delivery schedule) with a per-step invariant against a reference automaton",
    },
    "C20": {
        "level": "Seeded exploration of protocol interactions under a discrete-event simulator: arrival time, fragmentation, cross-party interleaving and peer misbehaviour (constraint-violating, wrong type, wrong party, garbage, truncated, silent, stalled, unsolicited), search duration are drawn from one seed; invariants (valid prefix, exactly-once in-order send log, receive conservation and attribution, never accept a bad message, valid remote data is never rejected in fault-free sessions) are checked at every step and at the end of every interaction.",
        "design_ref": "DESIGN.md §6.7",
        "note": _NOTE + " The wire is a reliable ordered stream per sender. Tier A (ProtoSim) reduces listener threads to pre-emption points at the lock-protected buffer accessors; tier B (SockSim, run by the same command) runs the real NetworkParty/UdpTcpProtocolImplementation code and real baton-scheduled threads on fake socket/select/threading modules (one fuzzer + one external party, TCP).",
        "technique": "deterministic simulation with fault injection: discrete-event virtual time, seeded scheduler at buffer-accessor pre-emption points (tier A) and baton-scheduled real threads over fake sockets (tier B), scripted faulty peers, history checks against a reference automaton and the peers' own send logs",
    },
    "C13": {
        "level": "Seeded exploration of (grammar, input, cut set, consumption style, can_continue interrogation) tuples against a fresh whole-input parse; every failure is a minimised replayable decision trace. Exploration is the right level because the quantifier ranges over all compositions of all inputs of all grammars; cut sets are sampled (for short inputs most of the 2^(n-1) compositions are hit over a run, never claimed exhaustive).",
        "design_ref": "DESIGN.md §6.4",
        "note": _NOTE + " Reference for C13 is a fresh IterativeParser fed the whole input. The same command then runs fault-free ProtoSim interactions (end to end: remote data cut and coalesced by the simulated transport, chunks spanning message boundaries) and reports, under C13, messages that end up different from what the peer emitted and valid data that is rejected or ignored.",
        "technique": "deterministic simulation: scheduler-chosen fragmentation of the input stream (FragSim) with differential oracle against whole-input feeding, plus protocol-mode interactions under a virtual clock with scheduler-chosen fragmentation/coalescing of remote data (ProtoSim) checked against the peers' send logs",
    },
}

NOT_APPLICABLE = {
    "C04": "Parsing soundness is a pure function of (grammar, input): the Earley/bit-column mis-steps it targets are selected by the grammar-word pair, not by any schedule, clock, fault or history, so deterministic simulation adds nothing over an input generator with a derivation checker (a different technique).",
    "C05": "Generate->parse round trip / parser completeness is a for-all-words statement about a pure function; no state, time, I/O or interleaving is involved (completeness defects the simulators run into are recorded as observations, see DESIGN.md §9).",
    "C06": "Non-termination is determined by the grammar alone (nullable body under */+, left recursion in prefix mode); a step budget is a watchdog, not a simulation - there is no schedule or fault to search over.",
    "C07": "A constraint verdict is a pure function of (tree, constraint program); deciding it needs a reference semantics over generated programs (translation validation / differential testing), not a simulator.",
    "C08": "AST equivalence of embedded Python with CPython's parser is translation validation over a program corpus; nothing to schedule or fault.",
    "C14": "Equivalence of the C++ and Python .fan front ends is differential testing over spec texts (single-shot pure functions); the C++ extension is git-ignored and absent from a fresh restore of /repo.",
    "C15": "Print/re-read round trip of specs is a pure function of the grammar/constraint objects; no schedule, clock, fault or history.",
}
