"""Party classes for tier B (SockSim): real NetworkParty subclasses, as `fandango talk` generates
them, so that UdpTcpProtocolImplementation, its listener thread, select/recv/accept/sendall and
stop()/join() all run unmodified -- on top of the fake socket/select/threading modules that
sims.socksim installs into fandango.io.  Only bookkeeping calls go to the bridge."""

from fandango.io import ConnectionMode, NetworkParty

from simfw import bridge

CONFIG = {"fuzzer_mode": "OPEN", "port": 9011}


class Fz(NetworkParty):
    def __init__(self):
        mode = ConnectionMode.OPEN if CONFIG["fuzzer_mode"] == "OPEN" else ConnectionMode.CONNECT
        super().__init__("tcp://127.0.0.1:%d" % CONFIG["port"], connection_mode=mode)
        bridge.on_party_created(self)
        self.start()

    def send(self, message, recipient):
        bridge.on_send(self, message, recipient)
        super().send(message, recipient)

    def receive(self, message, sender):
        # text protocol over TCP: decode, and name the sender (as docs/ftp_client.fan does)
        if message is None:
            bridge.SIM and bridge.SIM.on_eof_seen(self)
            return super().receive(None, sender)
        super().receive(message.decode("latin-1"), sender="Ex")


class Ex(NetworkParty):
    def __init__(self):
        super().__init__("tcp://127.0.0.1:%d" % CONFIG["port"], connection_mode=ConnectionMode.EXTERNAL)
        bridge.on_party_created(self)
        self.start()
