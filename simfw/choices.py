"""The decision stream: the only source of nondeterminism a simulated run may use.

One integer (the run seed) decides everything.  Decisions are partitioned into
named sub-streams (``spec``, ``cfg``, ``work``, ``sched``, ``fault``, ``prng``)
so that deleting a fault decision while shrinking does not shift the workload
or the schedule.  Each sub-stream is its own ``random.Random`` derived from
(seed, stream name) -- except ``spec``, which is derived from ``spec_seed`` so
that several runs can share one generated spec (the front end is the expensive
part of a run).

Record mode: draw from the PRNG, append the value to ``trace[stream]``.
Replay mode: return the recorded value (clamped into the offered range); once a
stream's recording is exhausted every draw returns 0, which by convention is
always the simplest choice (no fault, deliver now, first alternative, shortest
repetition), so shrinking by truncation/zeroing moves towards simple runs.

Oracles, logging and evidence code must never draw from a Choices object.
"""

from __future__ import annotations

import hashlib
import random
from typing import Optional, Sequence

STREAMS = ("spec", "cfg", "work", "sched", "fault", "prng")


def _sub_seed(seed: int, stream: str) -> int:
    h = hashlib.sha256(f"{seed}/{stream}".encode()).digest()
    return int.from_bytes(h[:8], "big")


class Choices:
    def __init__(
        self,
        seed: int,
        spec_seed: Optional[int] = None,
        replay: Optional[dict] = None,
    ):
        self.seed = int(seed)
        self.spec_seed = int(seed if spec_seed is None else spec_seed)
        self.replay = None if replay is None else {k: list(v) for k, v in replay.items()}
        self.trace: dict[str, list[int]] = {}
        self.labels: dict[str, list[str]] = {}
        self._rng: dict[str, random.Random] = {}
        self._pos: dict[str, int] = {}
        self.n_draws = 0

    # ------------------------------------------------------------------
    def _stream_rng(self, stream: str) -> random.Random:
        r = self._rng.get(stream)
        if r is None:
            base = self.spec_seed if stream == "spec" else self.seed
            r = self._rng[stream] = random.Random(_sub_seed(base, stream))
        return r

    def draw(self, n: int, stream: str = "sched", label: str = "") -> int:
        """An integer in [0, n).  n <= 1 returns 0 without consuming a decision."""
        if n <= 1:
            return 0
        self.n_draws += 1
        if self.replay is not None:
            rec = self.replay.get(stream, ())
            i = self._pos.get(stream, 0)
            self._pos[stream] = i + 1
            v = rec[i] if i < len(rec) else 0
            if v >= n:
                v = n - 1
            if v < 0:
                v = 0
        else:
            v = self._stream_rng(stream).randrange(n)
        self.trace.setdefault(stream, []).append(v)
        self.labels.setdefault(stream, []).append(label)
        return v

    def coin(self, p: float, stream: str = "fault", label: str = "") -> bool:
        """True with probability p; the recorded value 0 always means False."""
        if p <= 0:
            return False
        k = int(round(p * 1000))
        if k <= 0:
            k = 1
        v = self.draw(1000, stream, label)
        return v >= 1000 - k

    def pick(self, seq: Sequence, stream: str = "sched", label: str = ""):
        return seq[self.draw(len(seq), stream, label)]

    def rng_range(self, lo: int, hi: int, stream: str = "work", label: str = "") -> int:
        """An integer in [lo, hi] inclusive; recorded value 0 means lo."""
        return lo + self.draw(hi - lo + 1, stream, label)

    def weighted(self, weights: Sequence[int], stream: str = "sched", label: str = "") -> int:
        """Index drawn proportionally to integer weights; index 0 is the 'simple' one."""
        tot = sum(weights)
        v = self.draw(tot, stream, label)
        acc = 0
        for i, w in enumerate(weights):
            acc += w
            if v < acc:
                return i
        return len(weights) - 1

    def shuffle(self, items: list, stream: str = "work", label: str = "") -> list:
        """Fisher-Yates driven by the stream; all-zero decisions give the identity."""
        items = list(items)
        for i in range(len(items) - 1):
            j = i + self.draw(len(items) - i, stream, label)
            items[i], items[j] = items[j], items[i]
        return items

    def product_seed(self, label: str = "random.seed") -> int:
        return self.draw(2**32, "prng", label)

    # ------------------------------------------------------------------
    def export(self) -> dict:
        return {k: list(v) for k, v in self.trace.items()}

    def size(self) -> int:
        return sum(len(v) for v in self.trace.values())
