"""Entry point of every registered check (see MANIFEST.json)."""
import os
import sys

sys.path.insert(0, os.path.dirname(os.path.abspath(__file__)))
from simfw import boot

boot.ensure_env()


def main(argv):
    import argparse

    ap = argparse.ArgumentParser()
    ap.add_argument("target")
    ap.add_argument("--tier", default=os.environ.get("VERIF_TIER") or "quick")
    ap.add_argument("--replay")
    ap.add_argument("--seed", type=int)
    a = ap.parse_args(argv)
    if a.seed is not None:
        os.environ["VERIF_SEED"] = str(a.seed)
    from simfw import runner
    from simfw.registry import CHECKS

    if a.replay:
        return runner.replay_file(a.replay)
    if a.target == "selftest-determinism":
        from selftest import determinism

        return determinism.main(a.tier)
    if a.target not in CHECKS:
        print("unknown property %s (claimed: %s)" % (a.target, sorted(CHECKS)))
        return 2
    tier = a.tier if a.tier in ("quick", "thorough") else "quick"
    ent = CHECKS[a.target]
    import importlib

    boot.boot()
    batches = []
    for e in [ent] + list(ent.get("further", [])):
        sim = importlib.import_module("sims." + e["sim"])
        meta = dict(getattr(sim, "META", {}))
        cfg = dict(e[tier])
        cfg["tier"] = tier
        batches.append((e["sim"], cfg, meta))
    return runner.run_check(a.target, batches, tier)


if __name__ == "__main__":
    sys.exit(main(sys.argv[1:]))
