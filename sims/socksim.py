"""SockSim (C20 tier B): the real transport under a baton scheduler.

Everything of ProtoSim is real here as well, PLUS NetworkParty, UdpTcpProtocolImplementation
(start, _wait_accept, _listen, send, stop) and real Python threads.  Stubs: the socket, select and
threading modules seen by fandango.io (simfw.fakenet), the remote peer, the clock.

Additional faults only a transport sees: TCP segmentation (recv returns any non-empty prefix),
coalescing, EOF, reset, late connect/accept, the listener thread scheduled arbitrarily late or
between any two buffer accesses of the main loop, stop()/join() racing with a blocked listener.
"""

from __future__ import annotations

import random

from gen import proto as P
from simfw import bridge, boot, fakenet, netparties
from simfw.run import Run, StepCap, norm
from simfw.vclock import VClock
from sims import protosim
from sims.common import fresh_spec

NAME = "socksim"

META = dict(protosim.META)
META["rule"] = "one run = one generated two-party protocol spec driven over the real NetworkParty/TCP code on fake sockets with real baton-scheduled threads; peer behaviour, delays, segmentation, connect time and thread interleaving come from the decision stream; non-trivial = >=1 remote message parsed after >=1 short read or thread switch between buffer accesses, or >=1 transport fault; distinct = distinct event-log digests"
META["components"] = {
    "real": protosim.META["components"]["real"] + ["NetworkParty", "UdpTcpProtocolImplementation (start/_wait_accept/_listen/send/stop)", "real Python threads (baton-scheduled)"],
    "stub": ["socket / select / threading modules of fandango.io (simfw.fakenet)", "remote peer", "clock"],
}
META["expected_probes"] = ["thread_started", "short_read", "recv_eof", "remote_msg_parsed", "fuzzer_msg_sent", "interaction_completed", "interaction_failed", "second_interaction", "late_connect", "listener_ran_between_accessors", "wire_bytes_checked"]
META["bounds"] = dict(protosim.META["bounds"], parties="1 fuzzer (OPEN or CONNECT) + 1 external", context_switches="<= 200000 per run")


class SockClock(VClock):
    def __init__(self, run, **kw):
        super().__init__(run, **kw)
        self.sched = None

    def sleep(self, d):
        self.n_sleeps += 1
        self.sched.sleep(max(0.0, float(d)))


class SockSimulation(protosim.ProtoSimulation):
    def __init__(self, run, proto, text, cfg):
        super().__init__(run, proto, text, cfg)
        self.clock = SockClock(run, max_vtime=float(cfg.get("max_vtime", 900.0)))
        self.sched = fakenet.Scheduler(run, self.clock)
        self.clock.sched = self.sched
        self.net = fakenet.FakeNet(run, self.sched)
        self.net.on_wire_send = self.on_wire_send
        self.net.on_recv = self.on_recv
        self.conn = None
        self.backlog: list = []
        self.wire_sent = bytearray()
        self.expected_wire = bytearray()
        self.transport_fault = None
        self._saved = {}

    # ---- seams ---------------------------------------------------------------------------
    def install_net(self):
        import fandango.io as fio

        self._saved = {"socket": fio.socket, "select": fio.select, "threading": fio.threading}
        fio.socket = self.net
        fio.select = self.net
        fio.threading = fakenet.FakeThreadingModule(self.sched)
        boot.CLOCK.active = self.clock

    def uninstall(self):
        import fandango.io as fio

        try:
            self.sched.shutdown()
        finally:
            for k, v in self._saved.items():
                setattr(fio, k, v)
            super().uninstall()

    def spend(self, d: float):
        before = sum(self.session.delivered.values())
        self.sched.sleep(d)
        if sum(self.session.delivered.values()) > before:
            self.run.probe("delivery_during_search")

    def preempt(self, where: str):
        before = sum(self.session.delivered.values())
        n = self.sched.n_switches
        self.sched.yield_point()
        if len(self.io.receive) and self.sched.n_switches > n + 0:
            self.run.probe("listener_ran_between_accessors")
        if len(self.session.sim_history) > self.max_msgs:
            raise protosim.StopSession()

    # ---- connection management ---------------------------------------------------------------
    def on_party_created(self, party):
        super().on_party_created(party)
        if party.party_name == "Fz":
            self.conn = None
            self.backlog = []
            d = self.ch.pick([0.0, 0.01, 0.2, 2.0], "sched", "connect-delay")
            if d >= 0.2:
                self.run.probe("late_connect")
            self.clock.after(d, self.try_connect, "peer-connect")

    def try_connect(self):
        if self.conn is not None:
            return
        if netparties.CONFIG["fuzzer_mode"] == "OPEN":
            c = self.net.peer_connects(netparties.CONFIG["port"])
        else:
            c = self.net.peer_accepts()
        if c is None:
            self.clock.after(0.05, self.try_connect, "peer-connect-retry")
            return
        self.conn = c
        self.run.event("peer-connected")
        backlog, self.backlog = self.backlog, []
        for args in backlog:
            self.deliver(*args)

    # ---- wire ------------------------------------------------------------------------------
    def on_send(self, party, message, recipient):
        self.expected_wire += str(message).encode("utf-8")
        super().on_send(party, message, recipient)

    def on_wire_send(self, data: bytes):
        self.wire_sent += data
        self.run.event("wire-send", data)
        self.run.probe("wire_bytes_checked")
        if bytes(self.wire_sent) != bytes(self.expected_wire[: len(self.wire_sent)]):
            self.run.violation("C20", "send-discipline", "wire-bytes-differ-from-message", "bytes on the wire %r differ from the messages handed to send() %r" % (bytes(self.wire_sent[-40:]), bytes(self.expected_wire[-40:])))

    def on_recv(self, data: bytes):
        self.run.event("recv", data)

    def on_eof_seen(self, party):
        self.run.event("eof-seen", party.party_name)

    def deliver(self, sess, sender, recipient, piece, last, rec):
        sess.in_flight[sender] = sess.in_flight.get(sender, 1) - 1
        if sess is not self.session or not sess.active:
            return
        if self.conn is None or self.backlog:
            # not connected yet: a real peer could not have sent; keep the order and flush on connect
            sess.in_flight[sender] = sess.in_flight.get(sender, 0) + 1
            self.backlog.append((sess, sender, recipient, piece, last, rec))
            return
        if self.conn.to_fandango.eof or self.conn.to_fandango.reset:
            # the connection is gone: the rest of this message never reaches Fandango.  What did
            # arrive may be a complete message of a shorter, prefix-overlapping type.
            rec["cut"] = True
            return
        self.run.event("deliver", sender, recipient, piece)
        self.conn.to_fandango.buf += piece.encode("latin-1")
        sess.delivered[sender] = sess.delivered.get(sender, 0) + len(piece)
        if last:
            if sess.fault is not None and sess.fault_delivered_at is None and not (rec["valid"] and rec["ok"]):
                sess.fault_delivered_at = self.clock.elapsed()
            tf = None
            if self.fault_mode and self.ch.coin(0.06, "fault", "transport-fault"):
                tf = self.ch.pick(["eof", "reset"], "fault", "transport-fault-kind")
            if tf == "eof":
                self.conn.to_fandango.eof = True
                self.run.fault("eof")
                sess.fault = sess.fault or ("eof", sender, len(sess.emitted.get(sender, [])))
                self.run.op("t=%.3f peer closes the connection (EOF)" % self.clock.elapsed())
                return
            if tf == "reset":
                self.conn.to_fandango.reset = True
                self.conn.to_peer.reset = True
                self.run.fault("reset")
                # a reset discards what Fandango has not read yet: any message of this peer may have
                # reached it only in part
                for r_ in sess.emitted.get(sender, []):
                    r_["cut"] = True
                sess.fault = sess.fault or ("reset", sender, len(sess.emitted.get(sender, [])))
                self.run.op("t=%.3f connection reset by peer" % self.clock.elapsed())
                return
            d = 0.0 if self.ch.coin(0.25, "sched", "pipeline") else self.draw_delay("response")
            self.schedule_peer_poll(d)


def run(run: Run) -> None:
    from fandango.errors import FandangoError
    from fandango.language.grammar import FuzzingMode

    ch, cfg = run.ch, run.cfg
    pcfg = dict(cfg.get("proto", {}), two_fuzzers=0.0, two_externals=0.0, reuse_types_rate=0.0, ext_to_ext_rate=0.0, routed_rate=0.0)
    proto = P.gen_protocol(ch, pcfg)
    proto.party_code = lambda: "from simfw.netparties import %s\n" % ", ".join(proto.fuzzers + proto.externals)
    text = proto.to_fan()
    run.event("spec", text)
    random.seed(ch.product_seed())
    netparties.CONFIG["fuzzer_mode"] = ch.pick(["OPEN", "CONNECT"], "cfg", "fuzzer-mode")
    sim = SockSimulation(run, proto, text, cfg)
    bridge.SIM = sim
    gen = None
    try:
        sim.install_net()
        f = fresh_spec(text)
        sim.install(f)
        boot.CLOCK.active = sim.clock
        pop = ch.pick([1, 2, 4], "cfg", "population")
        maxgen = ch.pick([3, 6], "cfg", "maxgen")
        f.init_population(population_size=pop)
        gen = f.generate_solutions(max_generations=maxgen, mode=FuzzingMode.IO)
        n_sessions = 1 + ch.weighted([6, 3], "cfg", "sessions")
        run.op("tier B: fuzzer party %s; %d message type(s); constraints=%s fault_mode=%s" % (netparties.CONFIG["fuzzer_mode"], len(proto.msg_types), sorted(proto.field_constraints.items()), sim.fault_mode))
        sim.schedule_peer_poll(sim.draw_delay("response"))
        for k in range(n_sessions):
            try:
                tree = next(gen)
                sim.end_session("yielded", tree)
            except StopIteration:
                sim.end_session("exhausted", None)
                break
            except protosim.StopSession:
                sim.end_session("stopped-by-consumer", None)
                run.probe("session_cut")
                break
            except fakenet.Hang as e:
                run.violation("C20", "transport-hang", "join-never-returns", "the run does not end: %s\nops:\n%s" % (e, "\n".join(run.ops[-20:])))
                break
            except fakenet.Deadlock as e:
                run.violation("C20", "transport-deadlock", "all-threads-blocked", "every thread is blocked with no wake-up time: %s\nops:\n%s" % (e, "\n".join(run.ops[-20:])))
                break
            except (FandangoError, ValueError, AssertionError, IndexError, KeyError, OSError) as e:
                import traceback

                run.info["raised_traceback"] = norm("".join(traceback.format_exception(type(e), e, e.__traceback__))[-2500:])
                sim.end_session("raised", None, raised=e)
                break
    finally:
        if gen is not None:
            try:
                gen.close()
            except BaseException:
                pass
        sim.uninstall()
    run.steps += sim.sched.n_switches
    run.nontrivial = run.probes.get("remote_msg_parsed", 0) > 0 and (run.probes.get("short_read", 0) > 0 or sim.sched.n_switches > 20) or sum(run.faults.values()) > 0
    run.info.update({"sessions": len(sim.sessions), "switches": sim.sched.n_switches, "threads": len(sim.sched.threads), "faults": dict(run.faults), "mode": netparties.CONFIG["fuzzer_mode"]})
