"""SearchSim (C01, C02, C03, C11, C16): the evolutionary search as a scheduled, faulted process.

System under simulation (real code): front end, Grammar.fuzz, PopulationManager, Evaluator,
all constraint classes, repair suggestions, SimpleMutation, SimpleSubtreeCrossover,
AdaptiveTuner, DerivationTree.replace_multiple, generators.  Nothing of Fandango is stubbed;
user call-backs (generators, constraint code) are harness-provided and may raise on schedule.

Driver D1 (algorithm-scheduled): the real Fandango.generate_solutions() loop with swarm
settings; the harness *wraps* (does not replace) evaluate_individual / fix_individual /
mutate / crossover to observe every call, every yield and every return, and consumes the
solution generator lazily with an early stop chosen by the scheduler.
"""

from __future__ import annotations

import copy
import random

from gen import grammar as G
from gen import searchspec as S
from oracles import deriv
from simfw import boot, bridge
from simfw.run import Run, norm
from sims.common import fresh_spec

NAME = "searchsim"

META = {
    "rule": "one run = one generated spec (grammar + h hard constraints + r computed repetitions + generators) searched under swarm settings, every evaluation and every emitted tree observed; non-trivial = >=1 solution emitted or >=20 evaluations, and >=1 crossover/mutation/repair changed a tree; distinct = distinct event-log digests",
    "state_measure": "(h, r, constraint kinds, population size class, which operators fired, solutions-emitted class)",
    "components": {
        "real": ["front end", "Grammar.fuzz / node fuzzers", "PopulationManager (refill, fix_individual)", "Evaluator (fitness arithmetic, caches, solution set)", "constraint classes and suggestions", "SimpleMutation", "SimpleSubtreeCrossover", "AdaptiveTuner", "DerivationTree.replace_multiple", "generators (grammar.generate / populate_sources)"],
        "stub": ["generator call-backs and constraint helper code are harness-provided (ledger decides value / misfit / raise per invocation)"],
    },
    "expected_probes": ["plain_fuzz_run", "plain_fuzz_bytes", "plain_fuzz_bits", "two_call_run", "d2_run", "independent_evaluator_rebuilt", "solution_emitted", "crossover_changed_tree", "mutation_changed_tree", "repair_changed_tree", "cache_hit_evaluation", "raising_constraint_evaluated", "generator_invoked", "generator_fault", "consumer_stopped_early", "perfect_tree_evaluated", "inexact_pair"],
    "bounds": {"population": "2..20", "generations": "1..6", "max_nodes": "20..80", "h": "0..7 (+ inexact pairs up to 7)", "r": "0..7"},
    "assumptions": ["the independent evaluator is a second spec object built from the same text (constraint semantics themselves are C07, not claimed); for simple templates a harness-side predicate is checked as well"],
}


class Ledger:
    """Records every generator invocation; decides fitting value / misfit / raise."""

    def __init__(self, run: Run, spec: S.SearchSpec, fault_rate: float):
        self.run = run
        self.spec = spec
        self.fault_rate = fault_rate
        self.entries: list = []  # (name, args, kind, result)
        self.fault_pending = None
        self.arg_misfit = False

    def call(self, name, args):
        ch = self.run.ch
        self.run.probe("generator_invoked")
        kind = "fit"
        if self.arg_misfit and args and str(args[0]) == "b":
            # a generator that only fits the rule for some argument values: an operator that moves
            # the argument into the non-fitting region makes the *re-run* fail
            kind = "misfit"
            self.run.probe("argument_dependent_misfit")
        elif self.fault_rate and ch.coin(self.fault_rate, "fault", "gen-fault"):
            kind = ch.pick(["misfit", "raise"], "fault", "gen-fault-kind")
        if kind == "raise":
            self.entries.append((name, tuple(str(a) for a in args), kind, None))
            self.run.fault("generator_raises")
            self.run.probe("generator_fault")
            self.fault_pending = ("raise", name)
            self.run.event("gen", name, "raise")
            raise RuntimeError("injected generator failure in %s" % name)
        if kind == "misfit":
            value = ch.pick(["x", "12a", "", "123456"], "fault", "misfit-value")
            args = tuple(str(a) for a in args)
            self.run.fault("generator_misfit")
            self.run.probe("generator_fault")
            self.fault_pending = ("misfit", name, value)
        else:
            n = ch.rng_range(2, 4, "work", "genlen")
            value = "".join(ch.pick("0123456789", "work", "gendigit") for _ in range(n))
        args = tuple(str(a) for a in args)
        self.entries.append((name, args, kind, value))
        self.run.event("gen", name, kind, value)
        return value

    def fitting_values(self, name, args=None) -> set:
        return {e[3] for e in self.entries if e[0] == name and e[2] == "fit" and (args is None or e[1] == args)}


def clear_constraint_caches(constraints) -> None:
    seen = set()

    def walk(c):
        if id(c) in seen:
            return
        seen.add(id(c))
        cache = getattr(c, "cache", None)
        if isinstance(cache, dict):
            cache.clear()
        for v in vars(c).values():
            if hasattr(v, "fitness") and hasattr(v, "searches"):
                walk(v)
            elif isinstance(v, (list, tuple)):
                for x in v:
                    if hasattr(x, "fitness") and hasattr(x, "searches"):
                        walk(x)

    for c in constraints:
        walk(c)


class Monitor:
    def __init__(self, run: Run, spec: S.SearchSpec, text: str, ev_spec, ev_constraints, ledger: Ledger):
        self.run = run
        self.spec = spec
        self.text = text
        self.ev = ev_spec
        self.ev_constraints = ev_constraints
        self.ledger = ledger
        self.yielded_keys: set = set()
        self.evaluated = 0
        self.exc_during_eval = 0
        self.in_oracle = False
        self.reported: set = set()
        self.surfaced: set = set()
        self.evaluator_yields: list = []
        self.n_independent = 0
        self.fresh_every = 3 if run.prop == "C11" else 9

    # ---- exception sink -------------------------------------------------------
    def on_exception(self, e, note):
        if self.ledger.fault_pending and not self.in_oracle:
            # the product logged (and dropped) the operation that hit the injected generator fault
            self.run._gen_fault_surfaced = True
            self.run.probe("generator_fault_surfaced")
        if self.in_oracle:
            self.exc_during_eval += 1
        else:
            self.run.probe("raising_constraint_evaluated")
            self.run.event("logged-exception", type(e).__name__, note)

    def once(self, prop, cls, sig, detail):
        if (prop, sig) in self.reported:
            return
        self.reported.add((prop, sig))
        self.run.violation(prop, cls, sig, detail)

    # ---- the independent evaluator ---------------------------------------------
    def independent(self, tree):
        """(accepts, fitness, failing-paths) of a deep copy of ``tree`` judged by the second
        spec object with empty caches; never perturbs the global PRNG."""
        from fandango.evolution import GeneratorWithReturn
        from fandango.evolution.evaluation import Evaluator

        st = random.getstate()
        self.in_oracle = True
        before = self.exc_during_eval
        try:
            self.n_independent += 1
            if self.fresh_every and self.n_independent % self.fresh_every == 0:
                # brand-new constraint objects, new Python globals, empty caches -- not merely cleared caches
                self.ev = fresh_spec(self.text)
                self.ev_constraints = list(self.ev.constraints)
                if self.spec.extra_constraints:
                    self.ev_constraints += self.ev._parse_extra_constraints(self.spec.extra_constraints, "<start>")
                self.run.probe("independent_evaluator_rebuilt")
            t = copy.deepcopy(tree)
            self.ev.grammar.populate_sources  # noqa  (sources are copied with the tree)
            clear_constraint_caches(self.ev_constraints)
            e2 = Evaluator(self.ev.grammar, self.ev_constraints, 1.0, 5, 1.0)
            sols, (fit, failing, _sugg) = GeneratorWithReturn(e2.evaluate_individual(t)).collect()
            all_ok = True
            for c in self.ev_constraints:
                try:
                    if not c.fitness(t).success:
                        all_ok = False
                except Exception:
                    all_ok = False
            raised = self.exc_during_eval > before
            paths = sorted((tuple(st_.index for st_ in ft.tree.get_choices_path()), str(ft.tree.symbol)) for ft in failing)
            return (all_ok and not raised), fit, paths, raised
        finally:
            self.in_oracle = False
            random.setstate(st)

    # ---- C01 ------------------------------------------------------------------------
    def check_derivation(self, tree, where: str):
        model = deriv.to_model(tree)
        err = deriv.check_derivation(self.spec, model, "start")
        if err:
            self.once("C01", "not-a-derivation", "not-a-derivation:" + where, "%s: tree %r is not a derivation of the spec grammar: %s\nspec:\n%s" % (where, str(tree)[:200], err, self.text))
        return model

    # ---- C16 ------------------------------------------------------------------------
    def check_generated_fields(self, tree, model, where: str):
        if not self.spec.gen_fields:
            return
        for name in self.spec.gen_fields:
            for node in tree.find_all_trees(_nt(name)):
                txt = str(node)
                # the value computed from the argument values recorded with the tree
                by_sym = {src.symbol.name()[1:-1]: str(src) for src in node.sources}
                deps = self.spec.generators[name][1]
                if any(d not in by_sym for d in deps):
                    self.once("C16", "generator-output", "generated-field-without-recorded-arguments:" + where, "%s: <%s> %r has sources %s but the generator takes %s" % (where, name, txt, sorted(by_sym), deps))
                    continue
                args = tuple(by_sym[d] for d in deps)
                vals = self.ledger.fitting_values(name, args)
                if txt not in vals and txt in self.ledger.fitting_values(name):
                    self.once("C16", "generator-output", "generated-field-stale-for-recorded-arguments:" + where, "%s: <%s> holds %r but the arguments recorded with the tree are %r, for which the generator returned only %s\nspec:\n%s" % (where, name, txt, args, sorted(vals)[:6], self.text))
                    continue
                if txt not in vals:
                    misfits = {e[3] for e in self.ledger.entries if e[0] == name and e[2] == "misfit"}
                    sig = "generated-field-holds-misfit-value" if txt in misfits else "generated-field-not-generator-output"
                    self.once("C16", "generator-output", sig + ":" + where, "%s: <%s> holds %r, generator returned only %s (misfits %s)\nspec:\n%s" % (where, name, txt, sorted(vals)[:8], sorted(misfits), self.text))
                if any(not ch_.read_only for ch_ in node.children):
                    # the marking is Fandango's mechanism, not the property: only counted
                    self.run.probe("generated_children_not_read_only")


def bookkeeping_error(tree):
    """C10: size / parent links / hash of a real tree against recomputation (None if consistent)."""

    def rec(node, path):
        n = 1
        for i, c in enumerate(node.children):
            if c.parent is not node:
                return None, "%s: child %d has parent %r" % (path, i, None if c.parent is None else str(c.parent.symbol))
            k, err = rec(c, path + "/%d" % i)
            if err:
                return None, err
            n += k
        if node.size() != n:
            return None, "%s <%s>: size() reports %d nodes, recomputation gives %d" % (path, node.symbol, node.size(), n)
        return n, None

    _n, err = rec(tree, "")
    if err:
        return err
    if hash(tree) != hash(copy.deepcopy(tree)):
        return "hash(tree) differs from the hash of a fresh deep copy (stale hash cache)"
    return None


def _nt(name):
    from fandango.language.symbols import NonTerminal

    return NonTerminal("<%s>" % name)


def run(run: Run) -> None:
    from fandango.errors import FandangoError
    from fandango.evolution.crossover import SimpleSubtreeCrossover
    from fandango.evolution.mutation import SimpleMutation

    ch, cfg = run.ch, run.cfg
    mode = ch.weighted([14, 3, 3], "cfg", "searchsim-mode")
    if mode == 1:
        return _plain_fuzz_run(run)
    if mode == 2:
        return _two_call_run(run)
    spec = S.gen_searchspec(ch, cfg.get("spec", {}))
    text = spec.to_fan()
    run.event("spec", text, spec.extra_constraints)
    if (spec.h, spec.r) in S.INEXACT_PAIRS:
        run.probe("inexact_pair")
    random.seed(ch.product_seed())
    fault_rate = cfg.get("gen_fault_rate", 0.05) if (spec.gen_fields and ch.coin(0.4, "fault", "gen-faulty-run")) else 0.0
    ledger = Ledger(run, spec, fault_rate)
    ledger.arg_misfit = any(n.startswith("d_") for n in spec.gen_fields) and ch.coin(0.35, "fault", "arg-dependent-misfit")
    bridge.LEDGER = None
    ev = fresh_spec(text)  # the independent evaluator's spec object (built first, never fuzzed)
    ev_constraints = list(ev.constraints)
    if spec.extra_constraints:
        ev_constraints += ev._parse_extra_constraints(spec.extra_constraints, "<start>")
    f = fresh_spec(text)
    mon = Monitor(run, spec, text, ev, ev_constraints, ledger)
    boot.EXC_SINK.append(mon.on_exception)
    bridge.LEDGER = ledger
    pop = ch.pick([4, 2, 8, 12, 20], "cfg", "population")
    settings = dict(
        population_size=pop,
        max_nodes=ch.pick([40, 20, 80], "cfg", "max_nodes"),
        mutation_rate=ch.pick([0.2, 0.6, 1.0], "cfg", "mutation_rate"),
        crossover_rate=ch.pick([0.8, 0.3, 1.0], "cfg", "crossover_rate"),
        elitism_rate=ch.pick([0.1, 0.3, 0.0], "cfg", "elitism_rate"),
        destruction_rate=ch.pick([0.0, 0.0, 0.3], "cfg", "destruction_rate"),
        crossover_method=SimpleSubtreeCrossover(),
        mutation_method=SimpleMutation(),
    )
    max_generations = ch.pick([3, 1, 6], "cfg", "max_generations")
    driver = ch.pick(["D1", "D1", "D2"], "cfg", "driver") if cfg.get("d2", True) else "D1"
    stop_after = ch.pick([None, 1, 3, 10], "sched", "consumer-stops-after")
    run.op("driver %s" % driver)
    run.op("spec: h=%d r=%d extra=%d generators=%s kinds=%s; settings pop=%d gens=%d nodes=%d mut=%.1f cx=%.1f elit=%.1f destr=%.1f stop_after=%s gen_fault_rate=%.2f" % (spec.h, spec.r, len(spec.extra_constraints), spec.gen_fields, [c["kind"] for c in spec.cons], pop, max_generations, settings["max_nodes"], settings["mutation_rate"], settings["crossover_rate"], settings["elitism_rate"], settings["destruction_rate"], stop_after, fault_rate))
    emitted = []
    emitted_snap = []
    changed = {"crossover": 0, "mutation": 0, "repair": 0}
    gen = None
    try:
        try:
            f.init_population(extra_constraints=list(spec.extra_constraints) or None, **settings)
        except Exception as e:
            _generator_fault_outcome(run, mon, ledger, e, "init")
            return
        strat = f.fandango
        evaluator = strat.evaluator
        has_soft = len(evaluator._soft_constraints) > 0
        orig_eval = evaluator.evaluate_individual

        def evaluate_individual(individual):
            mon.evaluated += 1
            run.steps += 1
            key_before = hash((individual.get_root(), individual))
            cached = key_before in evaluator._fitness_cache
            if cached:
                run.probe("cache_hit_evaluation")
            model = mon.check_derivation(individual, "evaluated")
            mon.check_generated_fields(individual, model, "evaluated")
            accepts, fit2, paths2, raised2 = mon.independent(individual)
            h_accepts = spec.harness_accepts(model)
            if accepts:
                run.probe("perfect_tree_evaluated")
            yielded = []
            g = orig_eval(individual)
            try:
                while True:
                    y = next(g)
                    yielded.append(y)
                    mon.evaluator_yields.append(y)
                    yield y
            except StopIteration as stop:
                result = stop.value
            fitness, failing, _sugg = result
            paths = sorted((tuple(s_.index for s_ in ft.tree.get_choices_path()), str(ft.tree.symbol)) for ft in failing)
            run.event("eval", model_digest(model), repr(fitness), len(yielded), accepts, cached)
            skey = model
            # ---- C11: reported evaluation == fresh evaluation ---------------------------
            if not has_soft:
                if repr(fitness) != repr(fit2):
                    mon.once("C11", "stale-or-wrong-evaluation", "fitness-differs:" + ("cached" if cached else "uncached"), "evaluate_individual reports fitness %r for %r, a from-scratch evaluation by new constraint objects gives %r (cached=%s)\nspec:\n%s" % (fitness, str(individual)[:120], fit2, cached, text))
                elif paths != paths2:
                    mon.once("C11", "stale-or-wrong-evaluation", "failing-parts-differ:" + ("cached" if cached else "uncached"), "failing parts %s vs fresh %s for %r\nspec:\n%s" % (paths[:6], paths2[:6], str(individual)[:120], text))
            # ---- C03 / C02 at the evaluator ---------------------------------------------------
            if not has_soft:
                if accepts and h_accepts and skey not in mon.yielded_keys and not any(y is individual for y in yielded):
                    cause = "fitness-below-1" if fitness < 1.0 else "other"
                    mon.once("C03", "perfect-tree-not-accepted", "perfect-tree-not-yielded:" + cause, "tree %r satisfies all %d hard constraints and %d repetition bounds (independent evaluator and harness predicate agree) but was not reported as a solution at its first evaluation; fitness=%r\nspec:\n%s" % (str(individual)[:160], len(evaluator._hard_constraints), len(evaluator._repetition_bounds_constraints), fitness, text))
                for y in yielded:
                    ykey = deriv.to_model(y)
                    if ykey in mon.yielded_keys:
                        mon.once("C03", "solution-reported-twice", "yielded-twice", "tree %r was yielded as a solution twice" % str(y)[:160])
                    mon.yielded_keys.add(ykey)
                if yielded and not accepts:
                    why = "raises" if raised2 else "fails"
                    mon.once("C02", "evaluator-yields-unsatisfying-tree", "evaluator-yields:%s" % why, "evaluate_individual yielded %r as a solution but a from-scratch evaluation %s a constraint\nspec:\n%s" % (str(individual)[:160], why, text))
            return result

        evaluator.evaluate_individual = evaluate_individual

        # observe (not replace) the operators
        pm = strat.population_manager
        orig_fix = pm.fix_individual

        def fix_individual(individual, suggestion=None):
            before = deriv.to_model(individual)
            out = orig_fix(individual, suggestion)
            after_in = deriv.to_model(individual)
            for t_, what in ((individual, "input"), (out[0], "output")):
                be = bookkeeping_error(t_)
                if be:
                    mon.once("C10", "bookkeeping", "stale-bookkeeping:repair-" + what + ":" + ("size" if "size()" in be else ("parent" if "parent" in be else "hash")), "after fix_individual the %s tree is inconsistent: %s" % (what, be))
            if after_in != before:
                mon.once("C10", "operator-modified-input", "repair-modified-its-input", "fix_individual changed the tree it was given: %r -> %r" % (before, after_in))
            if deriv.to_model(out[0]) != before:
                changed["repair"] += 1
                run.probe("repair_changed_tree")
            return out

        pm.fix_individual = fix_individual
        cx = settings["crossover_method"]
        orig_cx = cx.crossover

        def crossover(grammar, p1, p2):
            b1, b2 = deriv.to_model(p1), deriv.to_model(p2)
            out = orig_cx(grammar, p1, p2)
            if deriv.to_model(p1) != b1 or deriv.to_model(p2) != b2:
                mon.once("C10", "operator-modified-input", "crossover-modified-a-parent", "crossover changed one of its parents")
            for t_, what in ((p1, "parent"), (p2, "parent")) + tuple((c_, "child") for c_ in (out or ())):
                be = bookkeeping_error(t_)
                if be:
                    mon.once("C10", "bookkeeping", "stale-bookkeeping:crossover-" + what + ":" + ("size" if "size()" in be else ("parent" if "parent" in be else "hash")), "after crossover a %s tree is inconsistent: %s" % (what, be))
            if out is not None and any(c_ is p1 or c_ is p2 for c_ in out):
                mon.once("C10", "operator-returned-input", "crossover-returned-a-parent-object", "crossover returned one of its parent objects as offspring")
            if out is not None:
                for c in out:
                    m = mon.check_derivation(c, "crossover-child")
                    mon.check_generated_fields(c, m, "crossover-child")
                    if m != b1 and m != b2:
                        changed["crossover"] += 1
                        run.probe("crossover_changed_tree")
            return out

        cx.crossover = crossover
        mu = settings["mutation_method"]
        orig_mu = mu.mutate

        def mutate(individual, grammar, evaluate_func, *a, **kw):
            before = deriv.to_model(individual)
            out = yield from orig_mu(individual, grammar, evaluate_func, *a, **kw)
            if deriv.to_model(individual) != before:
                mon.once("C10", "operator-modified-input", "mutation-modified-its-input", "mutate changed the tree it was given")
            for t_, what in ((individual, "input"), (out, "output")):
                be = bookkeeping_error(t_)
                if be:
                    mon.once("C10", "bookkeeping", "stale-bookkeeping:mutation-" + what + ":" + ("size" if "size()" in be else ("parent" if "parent" in be else "hash")), "after mutate the %s tree is inconsistent: %s" % (what, be))
            m = mon.check_derivation(out, "mutant")
            mon.check_generated_fields(out, m, "mutant")
            if m != before:
                changed["mutation"] += 1
                run.probe("mutation_changed_tree")
            return out

        mu.mutate = mutate

        # ---- driver D2: the harness schedules the operators itself ----------------------------------
        if driver == "D2":
            _drive_d2(run, mon, spec, text, strat, settings, emitted, emitted_snap, changed)
            stop_after = 0  # no conservation claim in D2
            gen = iter(())
        else:
            gen = f.generate_solutions(max_generations=max_generations)
        # ---- driver D1: consume the solution generator lazily -----------------------------------
        try:
            for sol in gen:
                run.probe("solution_emitted")
                emitted.append(sol)
                model = mon.check_derivation(sol, "emitted")
                emitted_snap.append((sol, model))
                mon.check_generated_fields(sol, model, "emitted")
                # the serialisation is what the model fold gives
                if str(sol) != "".join(str(x) for x in G.leaves(model)):
                    mon.once("C01", "serialisation-differs", "emitted-string-differs-from-leaves", "str(tree)=%r, leaves=%r" % (str(sol), G.leaves(model)))
                accepts, _fit, _paths, raised = mon.independent(sol)
                h_ok = spec.harness_accepts(model)
                run.event("emit", model_digest(model), accepts, h_ok)
                if not accepts or not h_ok:
                    kinds = sorted({c["kind"] for c in spec.cons if not c["pred"](model)})
                    why = "raises" if raised else "fails"
                    mon.once("C02", "emitted-solution-violates-constraint", "emitted:%s:%s" % (why, ",".join(kinds) or ("repetition-bound" if accepts else "evaluator-only")), "emitted solution %r does not satisfy the constraints when re-evaluated from scratch (independent evaluator accepts=%s, harness predicate=%s, failing kinds=%s)\nspec:\n%s" % (str(sol)[:200], accepts, h_ok, kinds, text))
                if stop_after is not None and len(emitted) >= stop_after:
                    run.probe("consumer_stopped_early")
                    run.fault("consumer_stops")
                    break
        except FandangoError as e:
            _generator_fault_outcome(run, mon, ledger, e, "generate")
        except RuntimeError as e:
            if "injected generator failure" in str(e):
                _generator_fault_outcome(run, mon, ledger, e, "generate")
            else:
                raise
        # a pending generator fault must have surfaced as an exception by now
        if ledger.fault_pending and not getattr(run, "_gen_fault_surfaced", False):
            kind = ledger.fault_pending[0]
            if kind == "misfit":
                mon.once("C16", "generator-misfit-swallowed", "misfit-did-not-raise", "generator %s returned %r which does not fit the rule, but no error reached the caller\nspec:\n%s" % (ledger.fault_pending[1], ledger.fault_pending[2], text))
        # ---- C10: solutions handed out earlier are unchanged and still consistent ----------------
        for sol, snap in emitted_snap:
            if deriv.to_model(sol) != snap:
                mon.once("C10", "emitted-solution-changed", "emitted-solution-modified-later", "a solution handed out earlier was modified by the continuing search: %r" % str(sol)[:120])
            be = bookkeeping_error(sol)
            if be:
                mon.once("C10", "bookkeeping", "stale-bookkeeping:emitted", "an emitted solution is inconsistent: %s" % be)
        # ---- final population: still derivations, generated fields intact ----------------------
        for ind in list(strat.population):
            m = mon.check_derivation(ind, "population")
            mon.check_generated_fields(ind, m, "population")
        # ---- conservation (C03): everything the evaluator yielded surfaced, unless the consumer stopped
        if stop_after is None and not has_soft and not ledger.fault_pending:
            surfaced = {id(s) for s in emitted}
            lost = [y for y in mon.evaluator_yields if id(y) not in surfaced]
            if lost:
                run.probe("evaluator_yield_not_surfaced", len(lost))
    finally:
        if gen is not None and hasattr(gen, "close"):
            gen.close()
        bridge.LEDGER = None
    run.info = {"h": spec.h, "r": spec.r, "evaluated": mon.evaluated, "emitted": len(emitted), "changed": dict(changed)}
    run.state((spec.h, spec.r, tuple(sorted({c["kind"] for c in spec.cons})), pop > 8, tuple(k for k, v in changed.items() if v), min(len(emitted), 3)))
    run.nontrivial = (len(emitted) > 0 or mon.evaluated >= 20) and sum(changed.values()) > 0


def _plain_fuzz_run(run: Run) -> None:
    """Plain grammar fuzzing and constraint-free search over SpecGen grammars of every mode (text,
    bytes, bits): each produced tree must be a derivation of the AST and serialise to the fold of
    its leaves (C01); produced twice from one object, results must not alias (C10)."""
    from gen.grammar import gen_grammar, word_of
    from simfw.registry import GRAMMAR_DEFAULT

    ch = run.ch
    g = gen_grammar(ch, dict(GRAMMAR_DEFAULT, utf8=True, ambiguous_regex=False, computed_reps=False))
    text = g.to_fan()
    run.event("spec", text)
    random.seed(ch.product_seed())
    f = fresh_spec(text)
    run.probe("plain_fuzz_run")
    run.probe("plain_fuzz_" + g.mode)
    starts = [n for n in g.rules if n != "bit"]
    n = ch.rng_range(3, 12, "work", "n-fuzz")
    run.op("plain fuzzing of a %s grammar with %d rule(s), %d tree(s)" % (g.mode, len(g.rules), n))
    trees = []
    for i in range(n):
        start = "start" if not ch.coin(0.3, "work", "otherstart") else ch.pick(starts, "work", "start")
        t = f.grammar.fuzz("<%s>" % start, ch.pick([20, 5, 50, 100], "work", "max-nodes"))
        trees.append(t)
        run.steps += 1
        model = deriv.to_model(t)
        err = deriv.check_derivation(g, model, start)
        run.event("fuzz", start, model_digest(model))
        if err:
            run.violation("C01", "not-a-derivation", "not-a-derivation:grammar-fuzz:" + g.mode, "Grammar.fuzz(<%s>) produced a tree that is not a derivation: %s\nspec:\n%s" % (start, err, text))
            continue
        try:
            want = word_of(model, g.mode)
        except AssertionError:
            continue
        got = str(t) if g.mode == "text" else bytes(t)
        if got != want:
            run.violation("C01", "serialisation-differs", "emitted-serialisation-differs-from-leaves:" + g.mode, "tree serialises to %r, its leaves spell %r\nspec:\n%s" % (got, want, text))
    if ch.coin(0.5, "work", "also-search"):
        from fandango.errors import FandangoError

        try:
            sols = f.fuzz(desired_solutions=ch.rng_range(2, 8, "work", "n-sol"), max_generations=2, population_size=ch.pick([6, 3, 12], "cfg", "population"))
        except FandangoError as e:
            # e.g. the diversity bonus compares a bit terminal with a byte string and raises
            # FandangoConversionError on grammars that mix bits and bytes: a crash, not a C01 matter
            run.probe("search_raised_on_plain_grammar")
            run.op("fuzz() raised %s: %s" % (type(e).__name__, norm(str(e))[:80]))
            sols = []
        for sol in sols:
            model = deriv.to_model(sol)
            err = deriv.check_derivation(g, model, "start")
            run.probe("solution_emitted")
            if err:
                run.violation("C01", "not-a-derivation", "not-a-derivation:emitted:" + g.mode, "fuzz() emitted a tree that is not a derivation: %s\nspec:\n%s" % (err, text))
    run.nontrivial = len(trees) >= 3
    run.info = {"mode": g.mode, "trees": len(trees)}
    run.state(("plain", g.mode, len(g.rules)))


def _two_call_run(run: Run) -> None:
    """The public fuzz() API called twice on ONE Fandango object with different command-line style
    extra constraints (and equal or different settings): every solution of each call must satisfy
    the spec's constraints plus the extra constraints of *that* call (C02)."""
    ch, cfg = run.ch, run.cfg
    spec = S.gen_searchspec(ch, dict(cfg.get("spec", {}), generators=False, raising_rate=0.0, max_h=2, max_r=1, inexact_pair_rate=0.0))
    text = spec.to_fan()
    run.event("spec", text)
    random.seed(ch.product_seed())
    run.probe("two_call_run")
    f = fresh_spec(text)
    extras = [
        ("int(<fa>) % 2 == 1", lambda m: all(int(a) % 2 == 1 for a in S._texts(m, "fa"))),
        ("int(<fa>) % 2 == 0", lambda m: all(int(a) % 2 == 0 for a in S._texts(m, "fa"))),
        ("int(<fb>) > 500", lambda m: all(int(b) > 500 for b in S._texts(m, "fb"))),
        ("str(<fc>).startswith('b')", lambda m: all(c.startswith("b") for c in S._texts(m, "fc"))),
    ]
    same_settings = bool(ch.draw(2, "cfg", "same-settings"))
    base = dict(population_size=ch.pick([8, 4, 16], "cfg", "population"), max_generations=ch.pick([4, 2, 8], "cfg", "max_generations"))
    run.op("two fuzz() calls on one object; same settings=%s" % same_settings)
    n_total = 0
    for call in range(2):
        etext, epred = extras[ch.draw(len(extras), "work", "extra-%d" % call)]
        settings = dict(base)
        if not same_settings and call == 1:
            settings["population_size"] = settings["population_size"] + 1
        sols = f.fuzz(extra_constraints=list(spec.extra_constraints) + [etext], desired_solutions=ch.rng_range(2, 6, "work", "n-sol"), **settings)
        run.op("call %d: extra constraint %r -> %d solution(s)" % (call, etext, len(sols)))
        run.event("call", call, etext, [str(s_) for s_ in sols])
        for sol in sols:
            n_total += 1
            run.probe("solution_emitted")
            model = deriv.to_model(sol)
            if not spec.harness_accepts(model):
                run.violation("C02", "emitted-solution-violates-constraint", "emitted:two-call:spec-constraint", "call %d emitted %r which violates a constraint of the spec\nspec:\n%s" % (call, str(sol)[:160], text))
            elif not epred(model):
                run.violation("C02", "emitted-solution-violates-constraint", "emitted:two-call:extra-constraint-of-this-call", "fuzz(extra_constraints=[%r]) (call %d on the same object) emitted %r which violates that extra constraint\nspec:\n%s" % (etext, call, str(sol)[:160], text))
    run.steps = n_total
    run.nontrivial = n_total >= 2
    run.info = {"solutions": n_total, "same_settings": same_settings}
    run.state(("two-call", same_settings, min(n_total, 4)))


def _drive_d2(run, mon, spec, text, strat, settings, emitted, emitted_snap, changed):
    """D2: the decision stream picks the next operator -- generate, evaluate, repair, mutate,
    crossover(i, j), re-evaluate an old tree, clear all memo tables (a legal no-op), emit -- so that
    operator orders the fixed loop of the algorithm never produces are reached.  Every call goes
    through the wrapped (observed) product functions, so all monitors apply; in addition every pool
    member that is not the output of the current operator must stay unchanged."""
    from fandango.errors import FandangoError
    from fandango.evolution import GeneratorWithReturn

    ch = run.ch
    pm, ev = strat.population_manager, strat.evaluator
    grammar = strat.grammar
    pool: list = []
    snaps: list = []
    n_ops = ch.rng_range(6, 30, "sched", "d2-ops")
    run.probe("d2_run")

    def check_pool(op):
        for i, (t, snap) in enumerate(zip(pool, snaps)):
            if deriv.to_model(t) != snap:
                mon.once("C10", "operator-modified-bystander", "pool-member-modified:" + op, "pool member %d was modified by %s although it was not its output" % (i, op))
                snaps[i] = deriv.to_model(t)
            be = bookkeeping_error(t)
            if be:
                mon.once("C10", "bookkeeping", "stale-bookkeeping:pool:" + op, "pool member %d inconsistent after %s: %s" % (i, op, be))

    def add(t, op):
        pool.append(t)
        snaps.append(deriv.to_model(t))
        if len(pool) > 12:
            pool.pop(0)
            snaps.pop(0)

    for _ in range(n_ops):
        op = ch.weighted([4, 4, 3, 3, 3, 2, 1, 2], "sched", "d2-op") if pool else 0
        try:
            if op == 0:
                t = pm._generate_population_entry(settings["max_nodes"])
                add(t, "generate")
                run.op("D2 generate -> %r" % str(t)[:40])
            elif op in (1, 5):
                i = ch.draw(len(pool), "sched", "d2-i")
                sols, res = GeneratorWithReturn(ev.evaluate_individual(pool[i])).collect()
                for sol in sols:
                    run.probe("solution_emitted")
                    emitted.append(sol)
                    emitted_snap.append((sol, deriv.to_model(sol)))
                    accepts, _f, _p, raised = mon.independent(sol)
                    if not accepts or not spec.harness_accepts(deriv.to_model(sol)):
                        mon.once("C02", "emitted-solution-violates-constraint", "emitted:d2", "D2: evaluate_individual yielded %r which does not satisfy the constraints from scratch\nspec:\n%s" % (str(sol)[:160], text))
                run.op("D2 evaluate #%d -> fitness %r, %d yielded" % (i, res[0], len(sols)))
            elif op == 2:
                i = ch.draw(len(pool), "sched", "d2-i")
                _s, res = GeneratorWithReturn(ev.evaluate_individual(pool[i])).collect()
                out, n = pm.fix_individual(pool[i], res[2])
                add(out, "repair")
                run.op("D2 repair #%d (%d fixes)" % (i, n))
            elif op == 3:
                i = ch.draw(len(pool), "sched", "d2-i")
                try:  # the algorithm's own loop logs and drops a failing mutation
                    _s, out = GeneratorWithReturn(settings["mutation_method"].mutate(pool[i], grammar, ev.evaluate_individual)).collect()
                    if out is not pool[i]:
                        add(out, "mutate")
                    run.op("D2 mutate #%d" % i)
                except Exception as e:
                    if "injected generator failure" in str(e) or mon.ledger.fault_pending:
                        raise
                    run.op("D2 mutate #%d raised %s (dropped, as _perform_mutation does)" % (i, type(e).__name__))
            elif op == 4 and len(pool) >= 2:
                i, j = ch.draw(len(pool), "sched", "d2-i"), ch.draw(len(pool), "sched", "d2-j")
                try:  # the algorithm's own loop logs and drops a failing crossover
                    out = settings["crossover_method"].crossover(grammar, pool[i], pool[j])
                    for c in out or ():
                        add(c, "crossover")
                    run.op("D2 crossover #%d x #%d" % (i, j))
                except Exception as e:
                    if "injected generator failure" in str(e) or mon.ledger.fault_pending:
                        raise
                    run.op("D2 crossover #%d x #%d raised %s (dropped, as _perform_crossover does)" % (i, j, type(e).__name__))
            elif op == 6:
                ev._fitness_cache.clear()
                clear_constraint_caches(strat.constraints)
                run.fault("memo_tables_cleared")
                run.op("D2 clear all memo tables")
            elif op == 7:
                i = ch.draw(len(pool), "sched", "d2-i")
                m = mon.check_derivation(pool[i], "d2-pool")
                mon.check_generated_fields(pool[i], m, "d2-pool")
        except FandangoError as e:
            if not mon.ledger.fault_pending:
                # e.g. "Missing converter" when a repair re-derives the sources of a generator with
                # arguments: the real search would end here as well; not a generator fault of ours
                run.op("D2 operator raised %s: %s; search ends" % (type(e).__name__, norm(str(e))[:80]))
                break
            _generator_fault_outcome(run, mon, mon.ledger, e, "d2")
            break
        except RuntimeError as e:
            if "injected generator failure" in str(e):
                _generator_fault_outcome(run, mon, mon.ledger, e, "d2")
                break
            raise
        check_pool(["generate", "evaluate", "repair", "mutate", "crossover", "re-evaluate", "clear", "inspect"][op])
    strat.population = list(pool)


def _generator_fault_outcome(run, mon, ledger, e, where):
    run.event("raised", where, type(e).__name__, norm(str(e))[:120])
    run.op("search raised %s: %s" % (type(e).__name__, norm(str(e))[:100]))
    if ledger.fault_pending:
        run._gen_fault_surfaced = True
        run.probe("generator_fault_surfaced")
    elif type(e).__name__.startswith("Fandango"):
        # one of the product's own errors without an injected fault (e.g. "Missing converter" when the
        # sources of a generator with arguments are re-derived): the search ends, nothing to decide
        run.probe("search_ended_with_fandango_error")
    else:
        raise e


def model_digest(model) -> str:
    import hashlib

    return hashlib.sha256(repr(model).encode("utf-8", "backslashreplace")).hexdigest()[:12]
