"""Shared helpers for the simulators (these *do* import Fandango: they drive the real code)."""

from __future__ import annotations

import os
import pickle
import random
import struct
from collections import OrderedDict

from simfw import boot

_SPEC_CACHE: "OrderedDict[str, object]" = OrderedDict()


def split_pieces(text: str) -> list:
    """Split a spec into top-level statements (a line plus its indented continuation lines).
    Each piece is handed to Fandango as its own .fan "file" (Fandango merges several files),
    so that the ANTLR parse-tree memo (keyed by text) hits for every line seen before."""
    import io

    groups: list[list[str]] = []
    for line in text.split("\n"):
        if not line.strip():
            continue
        if groups and (line[0] in " \t"):
            groups[-1].append(line)
        else:
            groups.append([line])
    files = []
    for i, g in enumerate(groups):
        f = io.StringIO("\n".join(g) + "\n")
        f.name = "<piece-%d>" % i
        files.append(f)
    return files


def fresh_spec(text: str, pieces: bool = True, **kw):
    """A brand-new Fandango spec object (real front end; ANTLR tree memoised per statement)."""
    from fandango import Fandango

    kw.setdefault("use_stdlib", False)
    kw.setdefault("logging_level", 50)
    st = random.getstate()
    try:
        return Fandango(split_pieces(text) if pieces else text, **kw)
    finally:
        random.setstate(st)


def prewarm(text: str) -> None:
    """Fill the ANTLR parse-tree memo for every statement of ``text`` without building a spec
    object (used before forking children that will all need the same statements)."""
    import fandango.language.parse.parse_spec as ps

    for f in split_pieces(text):
        ps.parse_tree(f.name, f.read())


def cached_spec(text: str, **kw):
    """A per-worker shared spec object, for simulators that only read its grammar rules."""
    key = text + repr(sorted(kw.items()))
    f = _SPEC_CACHE.get(key)
    if f is None:
        f = fresh_spec(text, **kw)
        _SPEC_CACHE[key] = f
        if len(_SPEC_CACHE) > 6:
            _SPEC_CACHE.popitem(last=False)
    else:
        _SPEC_CACHE.move_to_end(key)
    return f


def mutate_word(ch, w, alphabet, stream="work"):
    """A near miss of ``w`` (delete / insert / replace / swap / truncate)."""
    if len(w) == 0:
        c = ch.pick(alphabet, stream, "ins")
        return w + (bytes([c]) if isinstance(w, bytes) else c)
    op = ch.draw(5, stream, "mut")
    i = ch.draw(len(w), stream, "mutpos")
    c = ch.pick(alphabet, stream, "mutch")
    c = bytes([c]) if isinstance(w, bytes) else c
    if op == 0:
        return w[:i] + w[i + 1 :]
    if op == 1:
        return w[:i] + c + w[i:]
    if op == 2:
        return w[:i] + c + w[i + 1 :]
    if op == 3 and len(w) > 1:
        j = (i + 1) % len(w)
        l = list(w) if isinstance(w, str) else [bytes([b]) for b in w]
        l[i], l[j] = l[j], l[i]
        return (b"" if isinstance(w, bytes) else "").join(l)
    return w[:i]


def alphabet_of(g):
    """Characters (or byte values) that occur in the grammar's terminals."""
    from gen.grammar import RX_MENU, RX_MENU_BYTES

    out = set()

    def walk(n):
        k = n[0]
        if k == "lit":
            out.update(n[1])
        elif k == "rx":
            menu = RX_MENU_BYTES if isinstance(n[1], bytes) else RX_MENU
            for m in menu.values():
                if m[0] == n[1]:
                    out.update(m[2] if m[2] is not None else ("0123456789." if "0-9" in m[0] else "efghijk"))
        elif k in ("cat", "alt"):
            for x in n[1]:
                walk(x)
        elif k in ("star", "plus", "opt", "rep", "crep"):
            walk(n[1])

    for r in g.rules.values():
        walk(r)
    if g.mode == "text":
        out.update("Z9a ")
        return sorted(c for c in out if isinstance(c, str))
    out.update([0x00, 0x41, 0xFF])
    return sorted(c for c in out if isinstance(c, int))


def in_child(fn, timeout=45.0):
    """Run fn() in a forked child; returns ("ok", result) or ("exc", reason).  The child is killed
    when it exceeds ``timeout`` seconds of wall time or when the parent is interrupted."""
    import select
    import signal

    r, w = os.pipe()
    pid = os.fork()
    if pid == 0:
        try:
            os.close(r)
            signal.setitimer(signal.ITIMER_REAL, 0)  # the parent's watchdog is not ours
            try:
                res = ("ok", fn())
            except BaseException as e:  # noqa
                import traceback

                res = ("exc", "%s: %s\n%s" % (type(e).__name__, e, traceback.format_exc()[-1200:]))
            data = pickle.dumps(res)
            with os.fdopen(w, "wb") as f:
                f.write(struct.pack("<I", len(data)))
                f.write(data)
        finally:
            os._exit(0)
    os.close(w)
    data = b""
    try:
        deadline = boot.REAL_TIME() + timeout
        buf = b""
        need = None
        while True:
            left = deadline - boot.REAL_TIME()
            if left <= 0:
                return ("exc", "child-timeout after %.0fs" % timeout)
            rl, _, _ = select.select([r], [], [], min(left, 1.0))
            if not rl:
                continue
            chunk = os.read(r, 1 << 16)
            if not chunk:
                break
            buf += chunk
            if need is None and len(buf) >= 4:
                need = struct.unpack("<I", buf[:4])[0]
            if need is not None and len(buf) >= 4 + need:
                break
        data = buf[4 : 4 + need] if need is not None else b""
    finally:
        try:
            os.close(r)
        except OSError:
            pass
        try:
            os.kill(pid, 9)
        except OSError:
            pass
        try:
            os.waitpid(pid, 0)
        except OSError:
            pass
    if not data:
        return ("exc", "child died")
    return pickle.loads(data)
