"""ParseSim (C12): parse requests on one spec object as a history with cancellation.

One spec object lives through a scheduler-chosen sequence of parse-type requests (first tree,
whole forest, forest abandoned after k trees -- the library's "crash point" --, API-level
parse with and without prefix mode, other start symbols, include_controlflow on/off, words
inside and outside the language, repeated requests, mutation of a previously returned tree,
a burst of fuzzing).  Every fully consumed request is compared with the same request on a
pristine spec object built from the same text.
"""

from __future__ import annotations

import random
from collections import Counter

from gen import grammar as G
from oracles import deriv
from simfw.run import Run
from sims.common import alphabet_of, fresh_spec, mutate_word

NAME = "parsesim"

META = {
    "rule": "one run = one generated (ambiguity-biased) grammar and a history of 4..14 parse-type requests on one spec object; non-trivial = >=2 compared requests of which >=1 follows a partially consumed / first-tree-only / mutating / fuzzing request on the same key; distinct = distinct event-log digests",
    "state_measure": "(grammar hash, set of cache keys touched, kind of the previous request, kind of this request, ambiguity class of the word)",
    "components": {
        "real": ["Grammar.parse / parse_forest / parse_multiple", "Parser (forest cache)", "IterativeParser", "Fandango.parse (API, constraint filtering)", "Fandango.fuzz bursts (generator / repair parses)", "spec front end"],
        "stub": [],
    },
    "expected_probes": ["request_aborted_by_exception", "abandoned_forest", "first_tree_then_forest", "repeat_same_key", "mutated_returned_tree", "controlflow_request", "prefix_mode_request", "ambiguous_word", "fuzz_burst", "other_start_symbol", "api_parse"],
    "bounds": {"requests": "4..14", "word_symbols": "<= 20", "forest": "<= 60 trees consumed"},
    "assumptions": ["reference = the same request on a pristine spec object of the same text (parser soundness is C04, not claimed)"],
}

MAX_TREES = 60


def _add_ambiguity(ch, g: G.Gram):
    """Duplicate a rule and let one reference choose between the twins: 2+ parses per word."""
    names = [n for n in g.rules if n not in ("start", "bit")]
    if not names:
        return
    victim = ch.pick(names, "spec", "amb-victim")
    twin = victim + "b"
    g.rules[twin] = g.rules[victim]
    done = [False]

    def rewrite(node):
        k = node[0]
        if k == "nt" and node[1] == victim and not done[0]:
            done[0] = True
            return ("alt", (("nt", victim), ("nt", twin)))
        if k in ("cat", "alt"):
            return (k, tuple(rewrite(x) for x in node[1]))
        if k in ("star", "plus", "opt"):
            return (k, rewrite(node[1]))
        if k == "rep":
            return ("rep", rewrite(node[1]), node[2], node[3])
        return node

    for n in list(g.rules):
        if n in (victim, twin):
            continue
        g.rules[n] = rewrite(g.rules[n])
        if done[0]:
            break
    if not done[0]:
        del g.rules[twin]


class InjectedFault(Exception):
    """An exception thrown into the product at a scheduler-chosen call (a MemoryError /
    RecursionError / interrupt stand-in): the library's crash point."""


def _with_fault_at_call(k: int, fn):
    """Run fn(); raise InjectedFault at the k-th function call made inside fandango's parser
    package.  Returns ("ok", result) | ("fault", None) | ("exc", repr)."""
    import sys

    count = [0]

    def tracer(frame, event, arg):
        if event == "call":
            fnm = frame.f_code.co_filename
            if "/fandango/language/grammar/parser/" in fnm:
                count[0] += 1
                if count[0] == k:
                    raise InjectedFault("injected at call %d (%s)" % (k, frame.f_code.co_name))
        return None

    old = sys.gettrace()
    sys.settrace(tracer)
    try:
        try:
            return ("ok", fn())
        except InjectedFault:
            return ("fault", None)
        except Exception as e:  # the product turned the fault into something else
            return ("exc", "%s: %s" % (type(e).__name__, str(e)[:80]))
    finally:
        sys.settrace(old)


def _collect(gen, limit=MAX_TREES):
    out = []
    for t in gen:
        out.append(t)
        if len(out) >= limit:
            gen.close()
            break
    return out


def _do_request(f, req, ParsingMode):
    """Execute a *fully consumed* request; returns list of model trees."""
    kind, word, start, mode_incomplete, cf = req
    mode = ParsingMode.INCOMPLETE if mode_incomplete else ParsingMode.COMPLETE
    st = "<%s>" % start
    if kind == "first":
        t = f.grammar.parse(word, st, mode=mode, include_controlflow=cf)
        return [] if t is None else [t]
    if kind == "forest":
        return _collect(f.grammar.parse_forest(word, st, mode=mode, include_controlflow=cf))
    if kind == "multiple":
        return _collect(f.grammar.parse_multiple(word, st, mode=mode, include_controlflow=cf))
    if kind == "api":
        # the API always parses from the spec's own start symbol
        return _collect(f.parse(word, prefix=mode_incomplete))
    raise ValueError(kind)


def run(run: Run) -> None:
    from fandango.language.grammar import ParsingMode

    ch, cfg = run.ch, run.cfg
    gcfg = dict(cfg.get("grammar", {}))
    gcfg["ambiguous_regex"] = False
    gcfg["utf8"] = True
    g = G.gen_grammar(ch, gcfg)
    if g.mode != "bits" and ch.coin(0.7, "spec", "ambiguity"):
        _add_ambiguity(ch, g)
    with_gen = g.mode == "text" and ch.coin(0.3, "spec", "generator")
    text = g.to_fan()
    if with_gen:
        # a constant generator on a fresh symbol appended to <start>: fuzzing then parses internally
        text = text.replace("<start> ::= ", "<start> ::= <gsym> ", 1) + "<gsym> ::= r'[0-9]+' := str(7 * 6)\n"
        g.rules = {"start": ("cat", (("nt", "gsym"), g.rules["start"])), **{k: v for k, v in g.rules.items() if k != "start"}, "gsym": ("rx", r"[0-9]+", "d")}
    run.event("spec", text)
    random.seed(ch.product_seed())
    f = fresh_spec(text)

    # ---- word pool --------------------------------------------------------------
    starts = [n for n in g.rules if n not in ("bit", "gsym")]
    pool = []
    for _ in range(ch.rng_range(2, 4, "work", "nwords")):
        start = "start" if not ch.coin(0.25, "work", "otherstart") else ch.pick(starts, "work", "start")
        for _try in range(4):
            m = G.sample(g, ch, start, budget=ch.rng_range(3, 14, "work", "budget"))
            w = G.word_of(m, g.mode)
            if 0 < len(w) <= 20:
                break
        else:
            continue
        k = ch.weighted([6, 2, 2], "work", "wkind")
        if k == 1:
            w = mutate_word(ch, w, alphabet_of(g))
        elif k == 2 and len(w) > 1:
            w = w[: 1 + ch.draw(len(w) - 1, "work", "cut")]
        if len(w) == 0:
            continue
        pool.append((w, start))
    if not pool:
        run.op("no usable word")
        return
    run.op("grammar(%s): %d rules; words=%r" % (g.mode, len(g.rules), pool))

    # ---- the history ---------------------------------------------------------------
    n_req = ch.rng_range(4, 14, "sched", "nreq")
    compared = 0
    after_hazard = 0
    hazard_keys: set = set()  # cache keys that saw a partial / first-only / mutating request
    prev_kind = "-"
    returned: list = []  # trees handed out by earlier requests (for mutation)
    ref_cache: dict = {}  # request -> result on a pristine spec object (a pure function of the request)
    for i in range(n_req):
        op = ch.weighted([4, 4, 3, 2, 2, 2, 1, 2], "sched", "op")
        word, start = ch.pick(pool, "sched", "word")
        incomplete = ch.coin(0.25, "sched", "prefix-mode")
        cf = ch.coin(0.15, "sched", "controlflow")
        key = (word, start, incomplete)
        if op == 2:
            # ---- forest abandoned after k trees: the library's crash point -------------
            k = ch.rng_range(0, 2, "sched", "abandon-after")
            mode = ParsingMode.INCOMPLETE if incomplete else ParsingMode.COMPLETE
            gen = f.grammar.parse_forest(word, "<%s>" % start, mode=mode, include_controlflow=cf)
            got = []
            for _ in range(k):
                t = next(gen, None)
                if t is None:
                    break
                got.append(t)
            gen.close()
            returned.extend(got)
            run.fault("abandoned_generator")
            run.probe("abandoned_forest")
            run.op("#%d abandon forest(%r,<%s>,%s,cf=%s) after %d tree(s)" % (i, word, start, "INCOMPLETE" if incomplete else "COMPLETE", cf, len(got)))
            hazard_keys.add(key)
            prev_kind = "abandon"
            continue
        if op == 7:
            # ---- an exception is thrown into the parser in the middle of a request ---------
            k = 1 + ch.draw(400, "fault", "fault-at-call")
            kind = ch.pick(["forest", "first"], "sched", "fault-kind")
            mode = ParsingMode.INCOMPLETE if incomplete else ParsingMode.COMPLETE

            def faulty():
                if kind == "first":
                    return f.grammar.parse(word, "<%s>" % start, mode=mode, include_controlflow=cf)
                return _collect(f.grammar.parse_forest(word, "<%s>" % start, mode=mode, include_controlflow=cf))

            outcome = _with_fault_at_call(k, faulty)
            run.event("injected-exception", kind, k, outcome[0])
            run.op("#%d %s(%r,<%s>,%s,cf=%s) with an exception injected at parser call %d -> %s" % (i, kind, word, start, "INCOMPLETE" if incomplete else "COMPLETE", cf, k, outcome[0]))
            if outcome[0] == "fault":
                run.fault("exception_inside_parser")
                run.probe("request_aborted_by_exception")
                hazard_keys.add(key)
                prev_kind = "fault"
            continue
        if op == 5:
            # ---- the caller edits a tree it was handed ------------------------------------
            if returned:
                t = ch.pick(returned, "sched", "mutate-which")
                how = ch.draw(3, "sched", "mutate-how")
                try:
                    if how == 0 and t.children:
                        t.set_children(t.children[:-1])
                    elif how == 1:
                        leaf = t
                        while leaf.children:
                            leaf = leaf.children[0]
                        from fandango.language.symbols import Terminal

                        leaf.symbol = Terminal("MUTATED")
                    else:
                        t.set_children([])
                except Exception as e:
                    run.event("mutation-raised", type(e).__name__)
                run.fault("caller_mutates_returned_tree")
                run.probe("mutated_returned_tree")
                run.op("#%d caller mutates a returned tree (how=%d)" % (i, how))
                for kk in list(hazard_keys) + [kk for kk in [key]]:
                    pass
                hazard_keys.update((w_, s_, inc) for (w_, s_) in pool for inc in (False, True))
                prev_kind = "mutate"
            continue
        if op == 6:
            # ---- a burst of fuzzing (internal parses for generators and repairs) -----------
            try:
                st = random.getstate()
                sols = f.fuzz(desired_solutions=2, max_generations=2, population_size=4)
                random.setstate(st)
                run.event("fuzz-burst", len(sols))
            except Exception as e:
                run.event("fuzz-raised", type(e).__name__, str(e)[:80])
            run.probe("fuzz_burst")
            run.op("#%d fuzz burst" % i)
            prev_kind = "fuzz"
            continue
        kind = ["first", "forest", None, "api", "multiple"][op]
        if kind == "api":
            start = "start"
            cf = False
            key = (word, start, incomplete)
            run.probe("api_parse")
        req = (kind, word, start, incomplete, cf)
        if cf:
            run.probe("controlflow_request")
        if incomplete:
            run.probe("prefix_mode_request")
        if start != "start":
            run.probe("other_start_symbol")
        # ---- system under test -------------------------------------------------------------
        try:
            got_trees = _do_request(f, req, ParsingMode)
            got = [deriv.to_model(t) for t in got_trees]
            got_err = None
        except Exception as e:
            got, got_trees, got_err = None, [], "%s: %s" % (type(e).__name__, str(e)[:120])
        # ---- reference: the same request on a pristine spec object -------------------------
        if req in ref_cache:
            want, want_err = ref_cache[req]
        else:
            st = random.getstate()
            p = fresh_spec(text)
            try:
                want = [deriv.to_model(t) for t in _do_request(p, req, ParsingMode)]
                want_err = None
            except Exception as e:
                want, want_err = None, "%s: %s" % (type(e).__name__, str(e)[:120])
            random.setstate(st)
            ref_cache[req] = (want, want_err)
        returned.extend(got_trees[:3])
        compared += 1
        if key in hazard_keys:
            after_hazard += 1
            if prev_kind == "abandon" or kind in ("forest", "multiple"):
                run.probe("first_tree_then_forest")
        if (word, start, incomplete) in run.info.setdefault("_seen", set()):
            run.probe("repeat_same_key")
        run.info["_seen"].add(key)
        if want and len(want) > 1:
            run.probe("ambiguous_word")
        run.op("#%d %s(%r,<%s>,%s,cf=%s) -> %s tree(s), pristine %s" % (i, kind, word, start, "INCOMPLETE" if incomplete else "COMPLETE", cf, "ERR" if got is None else len(got), "ERR" if want is None else len(want)))
        run.event("req", kind, word, start, incomplete, cf, "E" if got is None else len(got), "E" if want is None else len(want))
        run.state((hash(text) & 0xFFFF, prev_kind, kind, incomplete, cf, min(len(want or []), 3)))
        if kind == "first":
            hazard_keys.add(key)
        # ---- oracle -----------------------------------------------------------------------------
        if (got is None) != (want is None):
            run.violation("C12", "history-dependent-error", "error-differs:" + kind, "request %r after history\n%s\nraised %s but on a pristine spec object %s\nspec:\n%s" % (req, "\n".join(run.ops[-8:]), got_err, want_err or "succeeds", text))
        elif got is not None:
            if Counter(got) != Counter(want) or (got and want and got[0] != want[0]):
                mutated = any("caller mutates" in o for o in run.ops)
                sub = not (Counter(got) - Counter(want))
                if cf and len(got) == 0 and want:
                    cause = "controlflow-request-after-cached-forest-empty"
                elif sub and len(got) < len(want) and key in hazard_keys and not mutated:
                    cause = "truncated-forest-after-" + ("aborted-request" if any("exception injected" in o and "-> fault" in o for o in run.ops) and not any("abandon forest" in o for o in run.ops) else "partial-consumption")
                elif mutated:
                    cause = "after-caller-mutated-returned-tree"
                else:
                    cause = "other"
                run.violation(
                    "C12",
                    "history-dependent-result",
                    "result-differs:%s:%s" % (kind if kind != "multiple" else "forest", cause),
                    "request %r\nhistory:\n%s\nreturned %d tree(s): %s\npristine spec object returns %d tree(s): %s\nspec:\n%s" % (req, "\n".join(run.ops[-10:]), len(got), got[:2], len(want), want[:2], text),
                )
        prev_kind = kind
    run.info.pop("_seen", None)
    run.steps = n_req
    run.nontrivial = compared >= 2 and after_hazard >= 1
    run.info = {"mode": g.mode, "requests": n_req, "compared": compared, "after_hazard": after_hazard}
