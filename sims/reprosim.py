"""ReproSim (C17): reproducibility under environmental perturbation.

For a sampled (spec, settings, random seed) the workload "emit N solutions, parse each back,
parse some non-words" is executed in two sibling processes (forks of the warmed worker, same
PYTHONHASHSEED) that differ ONLY in things the property says must not matter:
  * the clock: origin, rate and jumps (forwards and backwards) of time.time()/monotonic()
  * the address-space layout: heap noise allocated before the spec is built
  * the garbage collector: disabled / aggressive thresholds / default
  * the order of sets of identity-hashed objects: the seeded permutation behind the serial-hash seam
  * fresh uuid4 environment keys (differ naturally)
The two ordered output lists and all parse results must be identical.
"""

from __future__ import annotations

import gc
import random

from gen import searchspec as S
from oracles import deriv
from simfw import boot
from simfw.run import Run, norm
from sims.common import fresh_spec, in_child, prewarm

NAME = "reprosim"

META = {
    "rule": "one run = one (spec, settings, random seed) executed in two forked sibling processes under two different environment perturbations (clock, heap layout, GC, identity-hash order); non-trivial = both siblings emitted >=1 solution and the perturbations differ in >=2 dimensions; distinct = distinct event-log digests",
    "state_measure": "(h, r, settings class, which perturbation dimensions differ)",
    "components": {"real": ["everything used by Fandango(...), fuzz(), parse() in both siblings"], "stub": ["clock (perturbed on purpose)", "identity-hash order of grammar nodes / parties (seeded permutation instead of addresses)"]},
    "expected_probes": ["fresh_interpreter_pair", "clock_jump_backwards", "gc_disabled", "gc_aggressive", "heap_noise", "hash_permutation_differs", "both_emitted", "parse_back_compared", "tiny_language_spec"],
    "bounds": {"solutions": "<= 8", "generations": "<= 8", "population": "<= 40"},
    "assumptions": ["both siblings are forks of one warmed interpreter with the same PYTHONHASHSEED (the thorough tier repeats a subset in genuinely fresh interpreters)"],
}


class JitterClock:
    """A clock whose origin, rate and jumps come from the perturbation record."""

    def __init__(self, origin, rate, jumps):
        self.t = origin
        self.rate = rate
        self.jumps = dict(jumps)
        self.n = 0

    def now(self):
        self.n += 1
        self.t += self.rate
        j = self.jumps.get(self.n)
        if j is not None:
            self.t += j
        return self.t

    def sleep(self, d):
        self.t += d


def _workload(text, extra, settings, seed, n_sol, gens, pert):
    boot.reset_process_globals()
    boot.reset_serials(pert["hash_perm"])
    # a fresh process starts with an arbitrary PRNG state: the siblings get two different ones
    random.seed(pert["prng_init"])
    boot.CLOCK.active = JitterClock(pert["origin"], pert["rate"], pert["jumps"])
    noise = [bytearray(k) for k in pert["noise"]]
    if pert["gc"] == "off":
        gc.disable()
    elif pert["gc"] == "aggressive":
        gc.set_threshold(100, 5, 5)
    try:
        f = fresh_spec(text)
        sols = f.fuzz(extra_constraints=list(extra) or None, desired_solutions=n_sol, max_generations=gens, random_seed=seed, **settings)
        out = {"solutions": [str(s) for s in sols], "trees": [repr(deriv.to_model(s)) for s in sols], "parses": []}
        words = out["solutions"][:3] + [w[:-1] + "~" for w in out["solutions"][:1]] + ["", "0:0:a:||"]
        for w in words:
            try:
                trees = []
                for t in f.parse(w):
                    trees.append(repr(deriv.to_model(t)))
                    if len(trees) >= 4:
                        break
                out["parses"].append((w, trees))
            except Exception as e:
                out["parses"].append((w, "ERR " + type(e).__name__))
        del noise
        return out
    finally:
        boot.CLOCK.active = None


def _draw_pert(ch, tag):
    n_j = ch.draw(3, "sched", tag + "-njumps")
    return {
        "origin": ch.pick([1_700_000_000.0, 0.0, 4_000_000_000.5, 17.25], "sched", tag + "-origin"),
        "rate": ch.pick([0.001, 0.0, 1.0, 37.0], "sched", tag + "-rate"),
        "jumps": [(1 + ch.draw(200, "sched", tag + "-jump-at"), ch.pick([3600.0, -3600.0, -1e6, 0.5], "sched", tag + "-jump")) for _ in range(n_j)],
        "noise": [ch.pick([16, 1000, 50_000, 3], "sched", tag + "-noise-size") for _ in range(ch.pick([0, 7, 100, 1001], "sched", tag + "-noise-n"))],
        "gc": ch.pick(["default", "off", "aggressive"], "sched", tag + "-gc"),
        "hash_perm": ch.pick([0, 1, 7, 12345], "sched", tag + "-perm"),
        "prng_init": 1000 + ch.draw(1000, "sched", tag + "-prng-init") + (0 if tag == "a" else 5000),
    }


def child_main():
    """Entry point of a genuinely fresh interpreter: job on stdin (JSON), result on stdout."""
    import json
    import sys

    job = json.loads(sys.stdin.read())
    boot.boot()
    try:
        res = ("ok", _workload(job["text"], job["extra"], job["settings"], job["seed"], job["n_sol"], job["gens"], job["pert"]))
    except BaseException as e:  # noqa
        res = ("exc", "%s: %s" % (type(e).__name__, e))
    sys.__stdout__.write("RESULT " + json.dumps(res) + "\n")
    sys.__stdout__.flush()


def _in_fresh_interpreter(job, hashseed):
    import json
    import os
    import subprocess
    import sys

    env = dict(os.environ)
    env["PYTHONHASHSEED"] = hashseed
    env["VERIF_HASHSEED"] = hashseed
    env["VERIF_BOOTED"] = "1"
    env["PYTHONDONTWRITEBYTECODE"] = "1"
    code = "import sys; sys.path.insert(0, %r); from sims import reprosim; reprosim.child_main()" % boot.VERIF_DIR
    return subprocess.Popen([sys.executable, "-B", "-c", code], stdin=subprocess.PIPE, stdout=subprocess.PIPE, stderr=subprocess.DEVNULL, env=env, text=True), json.dumps(job)


def _run_pair_fresh(jobs, hashseed):
    import json

    procs = [_in_fresh_interpreter(j, hashseed) for j in jobs]
    outs = []
    for (p_, data) in procs:
        try:
            so, _ = p_.communicate(data, timeout=240)
        except Exception:
            p_.kill()
            so = ""
        res = ("exc", "no result from fresh interpreter")
        for line in so.splitlines():
            if line.startswith("RESULT "):
                r_ = json.loads(line[7:])
                res = (r_[0], r_[1])
        outs.append(res)
    return outs


def run(run: Run) -> None:
    ch, cfg = run.ch, run.cfg
    tiny = ch.coin(cfg.get("tiny_language_rate", 0.2), "spec", "tiny-language")
    if tiny:
        # a language with fewer members than the population is large: the search cannot fill its
        # population with unique individuals and its give-up logic decides how far it goes
        spec = S.SearchSpec()
        spec.rules["start"] = ("cat", (("nt", "ta"), ("lit", "-"), ("nt", "tb")))
        spec.rules["ta"] = ("alt", tuple(("lit", c) for c in "abcd"[: ch.rng_range(2, 4, "spec", "tiny-a")]))
        spec.rules["tb"] = ("rx", r"[1-3]", "c")
        if ch.draw(2, "spec", "tiny-cons"):
            spec.constraints = ["where str(<ta>) != 'a'"]
            spec.h = 1
        run.probe("tiny_language_spec")
    else:
        spec = S.gen_searchspec(ch, dict(cfg.get("spec", {}), generators=False, raising_rate=0.2))
    text = spec.to_fan()
    prewarm(text)
    run.event("spec", text)
    # 0 is a seed like any other (and a popular one)
    seed = 0 if ch.coin(0.12, "work", "seed-zero") else ch.draw(10_000, "work", "random-seed")
    n_sol = ch.rng_range(2, 8, "work", "n-sol")
    gens = ch.pick([4, 2, 8], "work", "gens")
    settings = dict(population_size=ch.pick([8, 3, 20] if not tiny else [20, 40, 14], "cfg", "population"), max_nodes=ch.pick([40, 20, 80], "cfg", "max_nodes"), mutation_rate=ch.pick([0.2, 0.8], "cfg", "mut"), crossover_rate=ch.pick([0.8, 0.3], "cfg", "cx"), destruction_rate=ch.pick([0.0, 0.3], "cfg", "destr"))
    pa, pb = _draw_pert(ch, "a"), _draw_pert(ch, "b")
    dims = [k for k in pa if pa[k] != pb[k]]
    for p_ in (pa, pb):
        if any(j[1] < 0 for j in p_["jumps"]):
            run.probe("clock_jump_backwards")
        if p_["gc"] == "off":
            run.probe("gc_disabled")
        if p_["gc"] == "aggressive":
            run.probe("gc_aggressive")
        if p_["noise"]:
            run.probe("heap_noise")
    if pa["hash_perm"] != pb["hash_perm"]:
        run.probe("hash_permutation_differs")
    run.op("spec h=%d r=%d; seed=%d n=%d gens=%d settings=%s" % (spec.h, spec.r, seed, n_sol, gens, sorted(settings.items())))
    run.op("sibling A: %s" % {k: (v if k != "noise" else len(v)) for k, v in pa.items()})
    run.op("sibling B: %s" % {k: (v if k != "noise" else len(v)) for k, v in pb.items()})
    fresh = ch.coin(cfg.get("fresh_rate", 0.25), "cfg", "fresh-interpreters")
    if fresh:
        run.probe("fresh_interpreter_pair")
        hs = ch.pick(["0", "1", "4242"], "cfg", "pair-hashseed")  # equal within the pair
        jobs = [{"text": text, "extra": list(spec.extra_constraints), "settings": settings, "seed": seed, "n_sol": n_sol, "gens": gens, "pert": p_} for p_ in (pa, pb)]
        ra, rb = _run_pair_fresh(jobs, hs)
        run.op("two genuinely fresh interpreters, PYTHONHASHSEED=%s" % hs)
    else:
        ra = in_child(lambda: _workload(text, spec.extra_constraints, settings, seed, n_sol, gens, pa))
        rb = in_child(lambda: _workload(text, spec.extra_constraints, settings, seed, n_sol, gens, pb))
    run.steps = 2
    if any(r_[0] != "ok" and ("child-timeout" in str(r_[1]) or "child died" in str(r_[1]) or "no result from fresh" in str(r_[1])) for r_ in (ra, rb)):
        from simfw.run import StepCap

        raise StepCap("child-timeout")
    if ra[0] != "ok" or rb[0] != "ok":
        run.event("child", ra[0], rb[0])
        if (ra[0] == "ok") != (rb[0] == "ok"):
            run.violation("C17", "run-not-reproducible", "one-sibling-raised", "one sibling raised, the other did not: A=%s B=%s" % (ra[1] if ra[0] != "ok" else "ok", rb[1] if rb[0] != "ok" else "ok"))
        else:
            run.op("both siblings raised: %s" % norm(str(ra[1]))[:200])
            a_err, b_err = norm(str(ra[1])).splitlines()[0], norm(str(rb[1])).splitlines()[0]
            run.event("both-raised", a_err, b_err)
        return
    a, b = ra[1], rb[1]
    run.event("a", a["solutions"], a["parses"])
    run.event("b", b["solutions"], b["parses"])
    if a["solutions"] and b["solutions"]:
        run.probe("both_emitted")
    run.probe("parse_back_compared")
    run.nontrivial = bool(a["solutions"]) and bool(b["solutions"]) and len(dims) >= 2
    run.state((spec.h, spec.r, settings["population_size"], tuple(dims)))
    run.info = {"dims": dims, "n_solutions": len(a["solutions"])}
    if a["solutions"] != b["solutions"] or a["trees"] != b["trees"]:
        # which single dimension explains it?  re-run B with one dimension of A at a time
        channel = "unlocalised"
        for d in ([] if fresh else dims):
            pc = dict(pb)
            pc[d] = pa[d]
            rc = in_child(lambda pc=pc: _workload(text, spec.extra_constraints, settings, seed, n_sol, gens, pc))
            if rc[0] == "ok" and rc[1]["solutions"] == a["solutions"] and rc[1]["trees"] == a["trees"]:
                channel = d
                break
        run.violation("C17", "run-not-reproducible", "solutions-differ:%s" % channel, "same spec, settings, random seed and hash seed, but the two siblings emitted different solutions (dimension that explains it: %s)\nA: %s\nB: %s\nperturbation A=%s\nperturbation B=%s\nspec:\n%s" % (channel, a["solutions"][:4], b["solutions"][:4], {k: v for k, v in pa.items() if k != "noise"}, {k: v for k, v in pb.items() if k != "noise"}, text))
    elif a["parses"] != b["parses"]:
        run.violation("C17", "run-not-reproducible", "parse-results-differ", "the two siblings produced different parse results\nA: %s\nB: %s" % (a["parses"][:2], b["parses"][:2]))
