"""ProtoSim (C20 tier A, C19): protocol mode as a simulated multi-party system.

Real code: the .fan front end incl. init_io, Fandango._generate_io, PacketSelector,
PacketForecaster / PathFinder / PacketIterativeParser, PacketNavigator, power schedules,
IoPopulationManager, IoEvaluator, parse_next_remote_packet, FandangoIO, FandangoParty.
Stubs: the wire (party.send -> simulator; simulator -> party.receive), the remote peers, the clock.

The product runs in the main thread.  Control reaches the simulator at *yield points*:
time.sleep (virtual clock), every wrapped FandangoIO buffer accessor (a pre-emption point:
all shared state is accessed under receive_lock, so every real listener-thread interleaving
is equivalent to one in which the listener runs only at these points) and party.send.
There the seeded scheduler decides which pending fragments are delivered and whether a
simulated peer acts.
"""

from __future__ import annotations

import random

from gen import grammar as G
from gen import proto as P
from oracles import deriv
from oracles.msgauto import MsgAutomaton
from simfw import boot, bridge
from simfw.run import Run, StepCap, norm
from simfw.vclock import VClock
from sims.common import fresh_spec

NAME = "protosim"

META = {
    "rule": "one run = one generated protocol spec driven through 1..3 interactions with scripted peers whose behaviour, delays and fragmentation come from the decision stream; non-trivial = >=1 remote message was parsed from >=2 fragments or >=1 fault was injected, and >=2 protocol steps were checked; distinct = distinct event-log digests",
    "state_measure": "(automaton state set hash, whose turn, pending-stream length class, fault kind in force) sampled at every main-loop step",
    "components": {
        "real": [
            "front end + init_io (implicit parties, slicing)",
            "Fandango._generate_io main loop",
            "PacketSelector / PacketForecaster / PathFinder / PacketIterativeParser / PacketNavigator / power schedules",
            "IoPopulationManager / IoEvaluator / constraints / grammar fuzzing of messages",
            "parse_next_remote_packet + IterativeParser",
            "FandangoIO receive buffer, FandangoParty.receive",
        ],
        "stub": ["wire: party.send -> simulator, simulator -> party.receive (reliable ordered stream per sender)", "remote peers (scripted from the reference automaton)", "clock (virtual, discrete-event)", "listener threads (reduced to pre-emption points at buffer accessors)"],
    },
    "expected_probes": [
        "walk_step",
        "remote_msg_parsed",
        "fragmented_delivery",
        "delivery_during_accessor",
        "fuzzer_msg_sent",
        "interaction_completed",
        "interaction_failed",
        "second_interaction",
        "abort_generation_on_arrival",
        "delivery_during_search",
        "chunk_spans_message_boundary",
        "interleaved_two_externals",
        "pipelined_message",
        "forecast_checked",
        "timeout_15s",
        "timeout_1s",
        "raised_error",
    ],
    "bounds": {"interactions_per_run": "1..3", "messages_per_interaction": "<= 14 (the consumer stops the interaction beyond; keeps open-ended repetitions below Fandango's generation cap of 20)", "parties": "1-2 fuzzer, 0-3 external", "message_types": "2..6", "virtual_time_per_run": "<= 900 s"},
    "assumptions": [
        "transport is a reliable ordered byte stream per sender (the property is about Fandango's handling of what arrives)",
        "message types are prefix-free (distinct keywords) except for one deliberately prefix-overlapping pair per spec in ~20 % of the specs; there the peers keep fragment gaps below the product's 1 s completion wait unless a slow-fragment/transport fault is injected",
    ],
}


class HarnessBug(BaseException):
    """An exception escaped from harness code that runs inside product call-backs."""


def guard(fn):
    def inner(*a, **kw):
        try:
            return fn(*a, **kw)
        except Exception as e:  # BaseExceptions (StopSession, StepCap, WallTimeout) pass through
            import traceback

            raise HarnessBug("%s in %s: %s\n%s" % (type(e).__name__, fn.__name__, e, traceback.format_exc()[-1500:])) from None

    inner.__name__ = fn.__name__
    return inner


class StopSession(BaseException):
    """The consumer gives up on the current interaction (like killing the fuzzer)."""


FAULTS = ["constraint_violation", "wrong_type", "wrong_party", "garbage", "truncated", "silence", "stall_long", "unsolicited"]


class Session:
    def __init__(self, idx):
        self.idx = idx
        self.sim_history: list = []  # (sender, recipient, type) in emission/sending order
        self.sends: list = []  # (sender, recipient, type, text)
        self.emitted: dict = {}  # ext party -> list of dict(type,text,ok,valid,recipient)
        self.delivered: dict = {}  # ext party -> number of chars delivered
        self.fault = None  # (kind, party, index in emitted[party])
        self.fault_delivered_at = None
        self.racy = False
        self.in_flight = {}
        self.silent = set()
        self.errors: list = []
        self.steps = 0
        self.max_delay = 0.0
        self.active = True
        self.search_failed = False
        self.ended = False
        self.models: list = []  # model trees of the messages of sim_history (for cross-message constraints)
        self.last_hist = []
        self.carry: dict = {}  # ext party -> tail of its last message, held back by the transport


class ProtoSimulation:
    def __init__(self, run: Run, proto: P.Proto, text: str, cfg: dict):
        self.run = run
        self.ch = run.ch
        self.cfg = cfg
        self.p = proto
        self.text = text
        ext = set(proto.externals)
        self.auto = MsgAutomaton(proto.rules, "start", invisible=lambda n: n[2] in ext and n[3] in ext)
        self.pairs = {(n, m["sender"], m["recipient"]) for n, m in proto.msg_types.items()} | set(proto.meta.get("pairs", ()))
        self.clock = VClock(run, max_vtime=float(cfg.get("max_vtime", 900.0)))
        self.session = Session(0)
        self.sessions = [self.session]
        self.io = None
        self.parties = {}
        self.fault_mode = bool(cfg.get("faults", True)) and self.ch.coin(cfg.get("fault_run_rate", 0.5), "fault", "faulty-run")
        self.max_msgs = int(cfg.get("max_msgs", 14))
        self.in_preempt = False
        self.generating = False
        self._orig_compute = None
        self._orig_eval = None
        self.evals_since_quiet = 0
        self.search_speed = self.ch.pick([0, 0, 1, 2], "cfg", "search-speed")  # 0 = instantaneous search

    # ------------------------------------------------------------------ seams
    def install(self, f):
        from fandango.io import FandangoIO
        from fandango.io.navigation.packetselector import PacketSelector

        spec_env_global, _ = f.grammar.get_spec_env()
        self.io = spec_env_global["FandangoIO"].instance()
        io = self.io
        sim = self
        for name in ("received_msg", "get_received_msgs", "clear_by_party", "get_full_fragments"):
            orig = getattr(io, name)

            def wrapped(*a, _orig=orig, _name=name, **kw):
                sim.preempt(_name)
                return _orig(*a, **kw)

            setattr(io, name, wrapped)
        self._orig_compute = PacketSelector.compute

        def compute(selector, history_tree, past):
            sim._orig_compute(selector, history_tree, past)
            sim.check_step(selector, history_tree)

        PacketSelector.compute = compute
        # the search takes time: a seeded amount of virtual time passes per evaluated candidate, so
        # that remote data can arrive *while* Fandango is generating its own next message
        import fandango.evolution.evaluation as E

        self._eval_cls = E.IoEvaluator
        self._orig_eval = E.IoEvaluator.evaluate_individual

        def evaluate_individual(ev_self, individual):
            sim.compute_time()
            return sim._orig_eval(ev_self, individual)

        E.IoEvaluator.evaluate_individual = evaluate_individual
        orig_received = io.received_msg

        def received_msg(*a, **kw):
            r = orig_received(*a, **kw)
            if r and sim.evals_since_quiet:
                sim.run.probe("abort_generation_on_arrival")
            sim.evals_since_quiet = 0
            return r

        io.received_msg = received_msg
        boot.EXC_SINK.append(self.on_exception)
        boot.CLOCK.active = self.clock

    def uninstall(self):
        from fandango.io.navigation.packetselector import PacketSelector

        if self._orig_compute is not None:
            PacketSelector.compute = self._orig_compute
        if getattr(self, "_orig_eval", None) is not None:
            self._eval_cls.evaluate_individual = self._orig_eval
            self._orig_eval = None
        bridge.SIM = None
        boot.CLOCK.active = None

    # ---------------------------------------------------------- bridge events
    def on_party_created(self, party):
        self.parties[party.party_name] = party
        if self.session.ended:
            # reset_parties() re-creates the parties: the connections of the next interaction
            # exist from here on.  Data a peer sent before this point went to the old connection.
            self.new_session()
            self.schedule_peer_poll(self.draw_delay("response"))

    def on_start(self, party):
        self.run.event("party-start", party.party_name)

    def on_stop(self, party):
        self.run.event("party-stop", party.party_name)

    @guard
    def on_exception(self, e, note):
        s = self.session
        s.errors.append((type(e).__name__, norm(str(e))[:200]))
        self.run.event("logged-exception", type(e).__name__, norm(str(e))[:120], note)
        msg = str(e)
        if "Couldn't find solution" in msg:
            s.search_failed = True
        if "Timed out while waiting for message from remote party" in msg:
            self.run.probe("timeout_15s")
        if "Timeout while waiting for next message fragment" in msg:
            self.run.probe("timeout_1s")

    @guard
    def on_send(self, party, message, recipient):
        self.evals_since_quiet = 0  # the generation step ran to its end
        s = self.session
        text = str(message)
        mtype = message.symbol.name()[1:-1]
        self.run.probe("fuzzer_msg_sent")
        self.run.event("send", party.party_name, recipient, mtype, text)
        self.run.op("t=%.3f %s -> %s : <%s> %r" % (self.clock.elapsed(), party.party_name, recipient, mtype, text))
        s.sends.append((party.party_name, recipient, mtype, text))
        s.sim_history.append((party.party_name, recipient, mtype))
        # C20: recipient is the one the grammar names; message satisfies the constraints
        m = self.p.msg_types.get(mtype)
        if m is None:
            self.run.violation("C20", "send-discipline", "sent-unknown-message-type", "sent <%s> %r which is not a message type of the spec\n%s" % (mtype, text, self.text))
        else:
            if (mtype, party.party_name, recipient) not in self.pairs:
                self.run.violation("C20", "send-discipline", "sent-wrong-party", "sent <%s> as %s->%s, the grammar only has %s\n%s" % (mtype, party.party_name, recipient, sorted(x for x in self.pairs if x[0] == mtype), self.text))
            model = deriv.to_model(message)
            s.models.append(model)
            err = deriv.check_derivation(self.p, model, mtype)
            if err:
                self.run.violation("C20", "send-discipline", "sent-not-in-language", "sent %r is not a derivation of <%s>: %s\n%s" % (text, mtype, err, self.text))
            elif not P.msg_satisfies(self.p, mtype, model):
                self.run.violation("C20", "send-discipline", "sent-violates-constraint", "sent <%s> %r violates %s\n%s" % (mtype, text, self.p.field_constraints.get(m["field"]), self.text))
        self.schedule_peer_poll(self.draw_delay("response"))

    # ------------------------------------------------------------- scheduling
    def draw_delay(self, kind: str) -> float:
        """Delays stay <= 0.4 x the product's thresholds unless a stall fault is in force."""
        if kind == "response":
            menu = [0.0, 0.001, 0.03, 0.2, 1.0, 3.0, 5.5]
        elif kind == "fragment":
            menu = [0.0, 0.0, 0.0005, 0.01, 0.1, 0.35]
        else:
            menu = [0.0, 0.001, 0.02]
        d = self.ch.pick(menu, "sched", "delay-" + kind)
        return d

    @guard
    def preempt(self, where: str):
        """A pre-emption point inside the product's buffer handling."""
        if self.in_preempt:
            return
        self.in_preempt = True
        try:
            eps = self.ch.pick([0.0, 0.0, 0.0002, 0.002], "sched", "eps")
            before = sum(self.session.delivered.values())
            self.clock.tick(eps)
            if sum(self.session.delivered.values()) > before:
                self.run.probe("delivery_during_accessor")
                self.run.event("preempt-delivery", where)
        finally:
            self.in_preempt = False
        if len(self.session.sim_history) > self.max_msgs:
            raise StopSession()

    @guard
    def compute_time(self):
        """Virtual time one candidate evaluation takes (a pre-emption point inside the search)."""
        self.evals_since_quiet += 1
        if not self.search_speed:
            return
        d = self.ch.pick([0.0, 0.0, 0.0005, 0.004] if self.search_speed == 1 else [0.0, 0.002, 0.03, 0.25], "sched", "search-time")
        if d:
            self.spend(d)

    def spend(self, d: float):
        if self.in_preempt:
            return
        self.in_preempt = True
        try:
            before = sum(self.session.delivered.values())
            self.clock.tick(d)
            if sum(self.session.delivered.values()) > before:
                self.run.probe("delivery_during_search")
        finally:
            self.in_preempt = False

    def schedule_peer_poll(self, delay: float):
        sess = self.session
        self.clock.after(delay, lambda: self.peer_poll(sess), "peer-poll")

    # ------------------------------------------------------------------ peers
    @guard
    def peer_poll(self, sess: Session):
        if sess is not self.session or not sess.active or sess.ended:
            return
        if sess.fault is not None and sess.fault[0] in ("truncated", "silence", "garbage", "wrong_type", "constraint_violation", "wrong_party"):
            return
        viable, st = self.auto.run(sess.sim_history)
        if not viable:
            return
        nxt = self.auto.next_set(st)
        # a party cannot start a message while its previous one is still on the wire; *other*
        # parties can (they do not see each other), which interleaves their fragments in the buffer
        ext_opts = sorted(k for k in nxt if k[0] in self.p.externals and k[0] not in sess.silent and not sess.in_flight.get(k[0]))
        fz_opts = [k for k in nxt if k[0] in self.p.fuzzers]
        if not ext_opts:
            return
        if fz_opts:
            # mixed turn: a well-behaved peer stays silent; speaking is a race
            if not (self.fault_mode and self.ch.coin(0.15, "fault", "speak-in-mixed-turn")):
                return
            sess.racy = True
            self.run.fault("unsolicited")
        if self.auto.complete(st) and self.ch.coin(0.3, "work", "peer-stops-when-complete"):
            return
        key = self.ch.pick(ext_opts, "work", "peer-msg")
        sender, recipient, mtype = key
        behaviour = "valid"
        if self.fault_mode and sess.fault is None and self.ch.coin(self.cfg.get("fault_rate", 0.25), "fault", "peer-fault"):
            kinds = ["wrong_type", "garbage", "truncated", "silence", "stall_long"]
            fld = self.p.msg_types[mtype]["field"]
            if fld in self.p.field_constraints or any(fld in ab for ab in self.p.eq_constraints):
                kinds += ["constraint_violation", "constraint_violation"]
            # a party that is not expected to speak now (e.g. the request went to another party)
            # sends one of its own, well-formed messages
            speakers = {k[0] for k in nxt}
            strangers = [o for o in P.occurrences(self.p) if o[0] in self.p.externals and o[1] in self.p.fuzzers and o[0] not in speakers and o[0] not in sess.silent and not sess.in_flight.get(o[0])]
            if strangers:
                kinds += ["wrong_party", "wrong_party"]
            behaviour = self.ch.pick(kinds, "fault", "fault-kind")
            if behaviour == "wrong_party":
                sender, recipient, mtype = self.ch.pick(strangers, "fault", "wrong-party")
        self.emit(sess, sender, recipient, mtype, behaviour, st)

    def emit(self, sess: Session, sender, recipient, mtype, behaviour, st):
        ch = self.ch
        em = sess.emitted.setdefault(sender, [])
        valid, ok = True, True
        pre_delay = 0.0
        _model = None
        if behaviour == "valid" or behaviour == "stall_long":
            text, _model, ok = P.sample_msg_in_history(self.p, ch, mtype, True, sess.models)
            if not ok:
                behaviour = "constraint_violation"
        if behaviour == "constraint_violation":
            text, _model, ok2 = P.sample_msg_in_history(self.p, ch, mtype, False, sess.models)
            ok = ok2
            if ok2:
                behaviour = "valid"
        elif behaviour == "wrong_type":
            allowed = {k[2] for k in self.auto.next_set(st) if k[0] == sender}
            others = sorted(t for t, m in self.p.msg_types.items() if t not in allowed)
            ov = self.p.meta.get("overlap")
            if ov and ov[0] in allowed:
                # the longer type's text starts with a complete, allowed message of the shorter type:
                # on a byte stream that is "a valid message followed by garbage", not a wrong type
                others = [t for t in others if t != ov[1]]
            if not others:
                behaviour = "garbage"
            else:
                mtype = ch.pick(others, "fault", "wrong-type")
                text, _model, _ok = P.sample_msg(self.p, ch, mtype, True)
                valid = False
        elif behaviour == "wrong_party":
            text, _model, _ok = P.sample_msg(self.p, ch, mtype, True)
            valid = False
        if behaviour == "garbage":
            text = ch.pick(["XYZZY\n", "\n", "??", "HELO", "0", "ACK ACK\n", "é\n"], "fault", "garbage")
            if any(text == t for t in self._all_valid_texts_guess(text)):
                text = "#" + text
            valid = False
        elif behaviour == "truncated":
            full, _model, _ok = P.sample_msg(self.p, ch, mtype, True)
            limit = len(full)
            ov = self.p.meta.get("overlap")
            if ov and mtype == ov[1]:
                # cut inside the part shared with the shorter type: anything longer is, on a byte
                # stream, a complete valid message of the shorter type followed by garbage
                limit = len(self.p.msg_types[mtype]["kw"]) + 1
            cut = 1 + ch.draw(max(1, limit - 1), "fault", "trunc-at")
            text = full[:cut]
            if text == full:
                text = full[:-1]
            # never cut right behind a terminator: with prefix-overlapping types the cut text could
            # be a complete message of the shorter type
            while len(text) > 1 and text[-1] in "\n;":
                text = text[:-1]
            valid = False
        elif behaviour == "silence":
            sess.fault = ("silence", sender, len(em))
            sess.silent.add(sender)
            self.run.fault("silence")
            self.run.op("t=%.3f %s stays silent (fault)" % (self.clock.elapsed(), sender))
            return
        if behaviour == "stall_long":
            pre_delay = ch.pick([1.5, 11.0, 16.0, 40.0], "fault", "stall")
            self.run.fault("stall_long")
            sess.max_delay = max(sess.max_delay, pre_delay)
            sess.fault = ("stall_long", sender, len(em))
        rec = {"type": mtype, "text": text, "ok": ok, "valid": valid, "recipient": recipient, "behaviour": behaviour}
        em.append(rec)
        if valid and ok:
            sess.sim_history.append((sender, recipient, mtype))
            sess.models.append(_model)
        else:
            sess.fault = (behaviour, sender, len(em) - 1)
            self.run.fault(behaviour)
        # fragmentation chosen by the scheduler
        n = len(text)
        style = ch.weighted([3, 3, 2], "sched", "frag-style")
        if n <= 1 or style == 0:
            cuts = []
        elif style == 1:
            cuts = [i for i in range(1, n) if ch.draw(3, "sched", "frag-cut") == 0]
        else:
            cuts = list(range(1, n))
        bounds = [0] + cuts + [n]
        pieces = [text[a:b] for a, b in zip(bounds, bounds[1:])]
        if len(pieces) > 1:
            self.run.probe("fragmented_delivery")
        self.run.op("t=%.3f %s -> %s : <%s> %r [%s] in %d fragment(s)%s" % (self.clock.elapsed(), sender, recipient, mtype, text, behaviour, len(pieces), (" after %.1fs" % pre_delay) if pre_delay else ""))
        self.run.event("emit", sender, recipient, mtype, text, behaviour, len(pieces))
        t = pre_delay
        sess.in_flight[sender] = sess.in_flight.get(sender, 0) + len(pieces)
        if valid and ok and len(self.p.externals) > 1 and self.ch.coin(0.6, "sched", "concurrent-peer"):
            self.schedule_peer_poll(0.0)  # another party may speak while this message is in flight
        for i, piece in enumerate(pieces):
            if i > 0:
                d = self.draw_delay("fragment")
                if behaviour != "valid" and self.fault_mode and ch.coin(0.1, "fault", "slow-fragment"):
                    d = ch.pick([1.3, 2.5], "fault", "slow-fragment-d")
                    self.run.fault("slow_fragment")
                    rec["slow"] = True  # a gap above the product's 1 s completion wait inside this message
                    if sess.fault is None:
                        sess.fault = ("slow_fragment", sender, len(em) - 1)
                t += d
                sess.max_delay = max(sess.max_delay, d)
            last = i == len(pieces) - 1
            self.clock.after(t, lambda piece=piece, last=last, rec=rec: self.deliver(sess, sender, recipient, piece, last, rec), "deliver")

    def _all_valid_texts_guess(self, text):
        return []

    def deliver(self, sess: Session, sender, recipient, piece, last, rec):
        sess.in_flight[sender] = sess.in_flight.get(sender, 1) - 1
        if sess is not self.session or not sess.active:
            return
        party = self.io.parties.get(recipient)
        if party is None:
            return
        held = sess.carry.pop(sender, None)
        if held is not None:
            # the transport coalesces: the held tail of the previous message and this piece arrive
            # in one receive() call (a chunk that spans a message boundary)
            self.run.probe("chunk_spans_message_boundary")
            piece = held + piece
        if last and held is None and rec["behaviour"] == "valid" and rec["valid"] and rec["ok"] and len(self.p.externals) == 1 and self.ch.coin(0.2, "sched", "hold-tail"):
            # hold the last piece back for a moment; the peer goes on and may send its next message
            # (single external party only: across independent senders a held tail would change the
            # arrival order of their messages, which is a race the peers cannot resolve)
            sess.carry[sender] = piece
            self.run.event("hold", sender, piece)

            def flush(sess=sess, sender=sender, recipient=recipient):
                tail = sess.carry.pop(sender, None)
                if tail is not None and sess is self.session and sess.active:
                    p_ = self.io.parties.get(recipient)
                    if p_ is not None:
                        self.run.event("deliver", sender, recipient, tail)
                        p_.receive(tail, sender)
                        sess.delivered[sender] = sess.delivered.get(sender, 0) + len(tail)

            self.clock.after(self.ch.pick([0.0005, 0.01, 0.05], "sched", "hold-for"), flush, "flush-held-tail")
        else:
            self.run.event("deliver", sender, recipient, piece)
            party.receive(piece, sender)  # the real FandangoParty.receive -> FandangoIO.add_receive
            sess.delivered[sender] = sess.delivered.get(sender, 0) + len(piece)
        if last:
            if sess.fault is not None and sess.fault_delivered_at is None and not (rec["valid"] and rec["ok"]):
                sess.fault_delivered_at = self.clock.elapsed()
            # pipelining / next turn
            d = 0.0 if self.ch.coin(0.25, "sched", "pipeline") else self.draw_delay("response")
            if d == 0.0:
                self.run.probe("pipelined_message")
            self.schedule_peer_poll(d)

    # ------------------------------------------------------- per-step monitors
    def tree_history(self, tree):
        return [(m.sender, m.recipient, m.msg.symbol.name()[1:-1]) for m in tree.protocol_msgs()]

    @guard
    def check_step(self, selector, history_tree):
        run, s = self.run, self.session
        s.steps += 1
        run.steps += 1
        hist = self.tree_history(history_tree)
        s.last_hist = hist
        run.event("step", len(hist), hist[-1] if hist else "-")
        # ---- 1. prefix validity (C20) ------------------------------------
        viable, st = self.auto.run(hist)
        if not viable:
            np_ = (":non-plain-grammar:" + self.p.meta["non_plain"][0]) if self.p.meta.get("non_plain") else ""
            run.violation("C20", "invalid-prefix", "history-not-a-prefix" + np_, "interaction tree %s is not a prefix of any interaction of the spec\n%s" % (hist, self.text))
            return
        # ---- 2b. the history satisfies every constraint (C20: sends satisfy them, bad remote data is never accepted)
        msgs = history_tree.protocol_msgs()
        bad = P.history_violations(self.p, [deriv.to_model(m.msg) for m in msgs if m.msg.symbol.name()[1:-1] in self.p.msg_types])
        if bad:
            last_from_fuzzer = bool(msgs) and msgs[-1].sender in self.p.fuzzers
            run.violation("C20", "history-violates-constraint", "history-violates-constraint:" + ("after-send" if last_from_fuzzer else "after-receive"), "the interaction tree %s violates: %s\n%s" % ([str(m.msg) for m in msgs], bad[:3], self.text))
        # ---- 3. send discipline (C20) --------------------------------------
        tree_sends = [(m.sender, m.recipient, m.msg.symbol.name()[1:-1], str(m.msg)) for m in history_tree.protocol_msgs() if m.sender in self.p.fuzzers and m.recipient in self.p.externals]
        if tree_sends != s.sends:
            run.violation("C20", "send-discipline", "sends-differ-from-tree", "messages of fuzzer parties in the tree: %s\nmessages actually sent: %s\n%s" % (tree_sends, s.sends, self.text))
        # ---- 4. receive conservation / attribution (C20) ---------------------
        for e in self.p.externals:
            in_tree = [(m.msg.symbol.name()[1:-1], str(m.msg), m.recipient) for m in history_tree.protocol_msgs() if m.sender == e]
            em = s.emitted.get(e, [])
            if len(in_tree) > len(em):
                run.violation("C20", "receive-conservation", "tree-has-unsent-remote-message", "tree attributes %s to %s which only emitted %s\n%s" % (in_tree, e, em, self.text))
                continue
            for i, (t, text, rcp) in enumerate(in_tree):
                rec = em[i]
                if (rec.get("cut") or rec.get("slow")) and rec["text"].startswith(text):
                    # a transport fault cut this message, or a fragment gap above the completion wait
                    # split it: what had arrived by then is a complete message of a shorter type
                    break
                if rec["text"] != text or rec["type"] != t:
                    self.frag_violation("receive-conservation", "remote-message-differs", "message %d of %s in the tree is <%s> %r but the peer emitted <%s> %r\n%s" % (i, e, t, text, rec["type"], rec["text"], self.text))
                    break
                if not (rec["valid"] and rec["ok"]):
                    run.violation("C20", "accepted-bad-remote-message", "accepted:" + rec["behaviour"], "the tree contains <%s> %r from %s, which the peer sent as a %s\nhistory=%s\n%s" % (t, text, e, rec["behaviour"], hist, self.text))
                    break
                if rec["recipient"] != rcp:
                    run.violation("C20", "receive-conservation", "remote-recipient-differs", "message %r from %s was addressed to %s but is recorded for %s" % (text, e, rec["recipient"], rcp))
                    break
            if in_tree:
                run.probe("remote_msg_parsed", 0)
        n_remote = sum(1 for m in hist if m[0] in self.p.externals)
        if n_remote > getattr(s, "_n_remote_seen", 0):
            run.probe("remote_msg_parsed", n_remote - getattr(s, "_n_remote_seen", 0))
            s._n_remote_seen = n_remote
        senders_pending = {snd for (snd, _r, _m) in self.io.receive} if self.io is not None else set()
        if len(senders_pending) >= 2:
            run.probe("interleaved_two_externals")
        # ---- 2. forecast exactness (C19) -------------------------------------
        try:
            fr = selector.forecasting_result
        except Exception as ex:  # the product would hit the same exception right away
            run.event("forecast-raised", type(ex).__name__)
            return
        run.probe("forecast_checked")
        got = set()
        for party, fnt in fr.parties_to_packets.items():
            for nt, packet in fnt.nt_to_packet.items():
                got.add((packet.node.sender, packet.node.recipient, nt.name()[1:-1]))
                if packet.node.sender != party:
                    run.violation("C19", "forecast-party-mismatch", "forecast-party-mismatch", "packet %s listed under party %s" % (packet.node.format_as_spec(), party))
        want = self.auto.next_set(st)
        complete_got = len(fr.complete_trees) != 0
        complete_want = self.auto.complete(st) and len(hist) > 0
        if got != want:
            extra, missing = sorted(got - want), sorted(want - got)
            kind = "extra-option" if extra and not missing else ("missing-option" if missing and not extra else "options-differ")
            cause = self._cause(history_tree, extra, missing, got)
            run.violation("C19", "forecast-differs", "%s:%s" % (kind, cause), "history=%s\nforecast offers %s\nthe grammar allows %s\nextra=%s missing=%s\n%s" % (hist, sorted(got), sorted(want), extra, missing, self.p.to_fan(with_parties=False)))
        if complete_got != complete_want:
            run.violation("C19", "completeness-flag", "complete-flag-%s%s" % ("set-on-incomplete" if complete_got else "unset-on-complete", (":non-plain-grammar:" + self.p.meta["non_plain"][0]) if self.p.meta.get("non_plain") else ""), "history=%s complete_trees=%d but the history %s a full interaction\n%s" % (hist, len(fr.complete_trees), "is" if complete_want else "is not", self.p.to_fan(with_parties=False)))
        whose = ("F" if any(k[0] in self.p.fuzzers for k in want) else "") + ("E" if any(k[0] in self.p.externals for k in want) else "")
        pend = len(self.io.receive)
        run.state((hash(st) & 0xFFFFFF, whose, min(pend, 3), s.fault[0] if s.fault else None))

    def frag_violation(self, cls, signature, detail):
        """Oracles about *how remote data was cut* decide C20 and, end to end, C13 (fragmentation
        independence of what the parser accepts)."""
        self.run.violation("C20", cls, signature, detail)
        if self.run.prop == "C13":
            self.run.violation("C13", cls, "protocol-mode:" + signature, detail)

    def _cause(self, tree, extra, missing, got) -> str:
        """The most specific cause the harness can establish for a forecast discrepancy."""
        if missing and all(any(g[0] == m[0] and g[2] == m[2] and g[1] != m[1] for g in got) for m in missing):
            # every missing option has a sibling with the same sender and type but another recipient:
            # the forecast result is keyed by message symbol only, so the second recipient is lost
            return "same-type-other-recipient"
        if self.p.meta.get("non_plain"):
            return "non-plain-grammar:" + self.p.meta["non_plain"][0]
        return self._forecast_cause(tree, extra, missing)

    def _forecast_cause(self, tree, extra, missing) -> str:
        """Name the distinguishing cause where the harness can establish it."""
        if extra and not missing:
            # is the last message inside a repetition element that is still incomplete?
            hist = self.tree_history(tree)
            viable, st = self.auto.run(hist)
            # candidate cause: an option that becomes available only after the *current* repetition
            # element is finished.  Established by checking that every extra option is allowed
            # after appending some completion of the pending element (one more allowed message).
            for nxt in sorted(self.auto.next_set(st)):
                st2 = self.auto.step(st, nxt)
                if st2 and all(e in self.auto.next_set(st2) or self._reachable_soon(st2, e) for e in extra):
                    return "after-incomplete-repetition-element"
            return "other"
        return "other"

    def _reachable_soon(self, st, key, depth=3) -> bool:
        if depth == 0:
            return False
        for nxt in self.auto.next_set(st):
            st2 = self.auto.step(st, nxt)
            if key in self.auto.next_set(st2) or self._reachable_soon(st2, key, depth - 1):
                return True
        return False

    # --------------------------------------------------------------- sessions
    def end_session(self, outcome: str, tree, raised=None):
        """History checks at the end of one interaction."""
        run, s = self.run, self.session
        s.ended = True
        s.active = False
        hist = self.tree_history(tree) if tree is not None else None
        err_names = [e[0] for e in s.errors]
        run.event("session-end", s.idx, outcome, hist, err_names, type(raised).__name__ if raised else "-")
        where = ""
        if raised is not None:
            import traceback

            tb = traceback.extract_tb(raised.__traceback__)
            where = " at " + " < ".join("%s:%d" % (fr.filename.split("/")[-1], fr.lineno) for fr in tb[-3:][::-1]) + " (%s)" % norm(str(raised))[:160]
        run.op("t=%.3f interaction %d ends: %s; tree=%s; logged=%s%s" % (self.clock.elapsed(), s.idx, outcome, hist, err_names, ("; raised " + type(raised).__name__ + where) if raised else ""))
        if tree is not None:
            self.check_final_tree(tree)
        viable, st = self.auto.run(hist) if hist is not None else (False, None)
        complete = bool(hist) and viable and self.auto.complete(st)
        if outcome == "yielded" and complete and not s.errors:
            run.probe("interaction_completed")
        elif outcome in ("yielded", "raised"):
            run.probe("interaction_failed")
        if outcome == "raised":
            run.probe("raised_error")
        if outcome not in ("yielded", "raised"):
            return
        # ---- 6. valid remote data must be accepted (clean sessions only) ---------
        # "each message ... reaches the specified recipient exactly once and in order, however the
        # remote data was fragmented": in a session without fault, race, search failure or long
        # delay every message a peer emitted must end up in the tree; a rejection of it is a violation.
        clean = s.fault is None and not s.racy and not s.search_failed and s.max_delay <= 6.0
        if not clean or complete and not raised:
            return
        texts = [norm(str(raised))] if raised is not None else []
        texts += [e[1] for e in s.errors]
        REJECT = [
            ("does not match constraints", "rejected-as-constraint-violation"),
            ("Could not parse received message fragments", "rejected-as-unparseable"),
            ("Timeout while waiting for next message fragment", "rejected-as-incomplete"),
            ("Couldn't derive parameters", "rejected-parameters"),
            ("Unexpected party sent message", "rejected-as-unexpected-party"),
        ]
        for pat, key in REJECT:
            if any(pat in t for t in texts):
                self.frag_violation("valid-remote-data-rejected", "valid-remote-data-" + key, "all peers behaved validly (no fault, no race, delays <= 0.4 x thresholds) but Fandango rejected their data: %s\nlast tree=%s\nops:\n%s\n%s" % (texts, s.last_hist, "\n".join(run.ops[-30:]), self.text))
                return
        last = s.last_hist or []
        if raised is None:
            last = hist
        pending = []
        for e in self.p.externals:
            n_tree = sum(1 for m in last if m[0] == e)
            em = s.emitted.get(e, [])
            if s.delivered.get(e, 0) >= sum(len(r["text"]) for r in em) and len(em) > n_tree:
                pending.append((e, em[n_tree]["text"]))
        timed_out = any("Timed out while waiting for message from remote party" in t for t in texts)
        if pending and timed_out:
            self.frag_violation("valid-remote-data-ignored", "valid-remote-data-ignored-until-timeout", "peers behaved validly; %s was fully delivered but never consumed and the run timed out waiting\nlast tree=%s\nops:\n%s\n%s" % (pending, last, "\n".join(run.ops[-30:]), self.text))
            return
        # anything else (navigator crashes, search giving up, ...) is outside what C20 states:
        # recorded as an observation, never deciding
        if raised is not None:
            import traceback

            fn = "?"
            for fr in traceback.extract_tb(raised.__traceback__)[::-1]:
                if "/fandango/" in fr.filename:
                    fn = fr.name
                    break
            run.violation("C20-liveness", "clean-run-crashed", "clean-run-raised:%s@%s" % (type(raised).__name__, fn), "observation only: %s" % texts[:1])
        else:
            run.violation("C20-liveness", "clean-run-incomplete", "clean-run-did-not-complete", "observation only: tree=%s logged=%s" % (hist, texts[:2]))

    def check_final_tree(self, tree):
        """The yielded tree itself: valid prefix, derivation of the spec grammar, attribution."""
        run = self.run
        hist = self.tree_history(tree)
        viable, _st = self.auto.run(hist)
        if not viable:
            np_ = (":non-plain-grammar:" + self.p.meta["non_plain"][0]) if self.p.meta.get("non_plain") else ""
            run.violation("C20", "invalid-prefix", "yielded-history-not-a-prefix" + np_, "yielded interaction %s is not a prefix of any interaction of the spec\n%s" % (hist, self.text))
        for m in tree.protocol_msgs():
            mt = m.msg.symbol.name()[1:-1]
            if mt in self.p.msg_types:
                err = deriv.check_derivation(self.p, deriv.to_model(m.msg), mt)
                if err:
                    run.violation("C20", "message-not-in-language", "tree-message-not-in-language", "message %r recorded as <%s> is not in its language: %s" % (str(m.msg), mt, err))

    def new_session(self):
        s = Session(len(self.sessions))
        self.sessions.append(s)
        self.session = s
        self.run.probe("second_interaction")


# ----------------------------------------------------------------------------
def forecast_walk(run: Run, sim: "ProtoSimulation", f) -> None:
    """ForecastWalk (C19): without any I/O, a seeded walk picks at each step one of the reference
    automaton's continuations (messages of *all* parties), builds the message subtree with the
    product's own grammar.fuzz, mounts it at one of the product's own mounting paths exactly as
    _generate_io does, and compares forecast and automaton at every prefix -- reaching histories
    (repetition maxima, "after the last allowed repetition", nested options) that protocol runs
    rarely reach."""
    from fandango.io.navigation.packetforecaster import PacketForecaster
    from fandango.language.symbols import NonTerminal
    from fandango.language.tree import DerivationTree

    ch = run.ch
    forecaster = PacketForecaster(f.grammar)
    tree = DerivationTree(NonTerminal("<start>"))
    max_len = int(run.cfg.get("walk_len", 12))
    hist: list = []
    for step in range(max_len + 1):
        viable, st = sim.auto.run(hist)
        assert viable
        fr = forecaster.predict(tree)
        run.steps += 1
        run.probe("forecast_checked")
        run.probe("walk_step")
        got = set()
        for party, fnt in fr.parties_to_packets.items():
            for nt, packet in fnt.nt_to_packet.items():
                got.add((packet.node.sender, packet.node.recipient, nt.name()[1:-1]))
        want = sim.auto.next_set(st)
        run.event("walk", step, hist[-1] if hist else "-", sorted(got), sorted(want))
        complete_got = len(fr.complete_trees) != 0
        complete_want = sim.auto.complete(st) and len(hist) > 0
        if got != want:
            extra, missing = sorted(got - want), sorted(want - got)
            kind = "extra-option" if extra and not missing else ("missing-option" if missing and not extra else "options-differ")
            cause = sim._cause(tree, extra, missing, got)
            run.violation("C19", "forecast-differs", "%s:%s" % (kind, cause), "walk history=%s\nforecast offers %s\nthe grammar allows %s\nextra=%s missing=%s\n%s" % (hist, sorted(got), sorted(want), extra, missing, sim.p.to_fan(with_parties=False)))
        if complete_got != complete_want:
            run.violation("C19", "completeness-flag", "complete-flag-%s%s" % ("set-on-incomplete" if complete_got else "unset-on-complete", (":non-plain-grammar:" + sim.p.meta["non_plain"][0]) if sim.p.meta.get("non_plain") else ""), "walk history=%s complete_trees=%d but the history %s a full interaction\n%s" % (hist, len(fr.complete_trees), "is" if complete_want else "is not", sim.p.to_fan(with_parties=False)))
        run.state((hash(st) & 0xFFFFFF, "walk", len(hist)))
        # continue along an option both sides agree on (so that the walk stays inside the language)
        both = sorted(got & want)
        if not both or step == max_len:
            break
        if complete_want and ch.coin(0.15, "work", "walk-stop"):
            break
        key = ch.pick(both, "work", "walk-next")
        packet = fr.parties_to_packets[key[0]].nt_to_packet[NonTerminal("<%s>" % key[2])]
        paths = sorted(packet.paths, key=lambda mp: repr(mp))
        option = ch.pick(paths, "work", "walk-mount")
        msg = f.grammar.fuzz("<%s>" % key[2], 30)
        msg.sender = packet.node.sender
        msg.recipient = packet.node.recipient
        tree = option.tree
        tree.append(option.path[1:-1], msg)
        hist.append((msg.sender, msg.recipient, key[2]))
        got_hist = sim.tree_history(tree)
        if got_hist != hist:
            run.violation("C19", "mounting", "mounted-history-differs", "after mounting %s the tree reads %s, expected %s" % (key, got_hist, hist))
            break
    run.op("forecast walk of %d message(s): %s" % (len(hist), hist))
    run.nontrivial = len(hist) >= 3
    run.info = {"walk_len": len(hist)}


def run(run: Run) -> None:
    from fandango.errors import FandangoError
    from fandango.language.grammar import FuzzingMode

    ch, cfg = run.ch, run.cfg
    proto = P.gen_protocol(ch, cfg.get("proto", {}))
    text = proto.to_fan()
    run.event("spec", text)
    if all(n in proto.msg_types for n in proto.meta.get("overlap", ("-",))):
        run.probe("spec_with_prefix_overlapping_types")
    random.seed(ch.product_seed())
    sim = ProtoSimulation(run, proto, text, cfg)
    bridge.SIM = sim
    gen = None
    if cfg.get("walk_rate") and ch.coin(cfg["walk_rate"], "cfg", "forecast-walk"):
        try:
            f = fresh_spec(text)
            forecast_walk(run, sim, f)
        finally:
            bridge.SIM = None
        return
    try:
        f = fresh_spec(text)
        sim.install(f)
        pop = ch.pick([1, 2, 4, 8], "cfg", "population")
        maxgen = ch.pick([3, 6, 9], "cfg", "maxgen")
        f.init_population(population_size=pop)
        gen = f.generate_solutions(max_generations=maxgen, mode=FuzzingMode.IO)
        n_sessions = 1 + ch.weighted([5, 3, 2], "cfg", "sessions")
        run.op("protocol spec: %d state rule(s), %d message type(s), fuzzers=%s externals=%s constraints=%s fault_mode=%s pop=%d" % (len(proto.state_rules), len(proto.msg_types), proto.fuzzers, proto.externals, sorted(proto.field_constraints.items()), sim.fault_mode, pop))
        # externals may have to speak first
        sim.schedule_peer_poll(sim.draw_delay("response"))
        for k in range(n_sessions):
            try:
                tree = next(gen)
                sim.end_session("yielded", tree)
            except StopIteration:
                sim.end_session("exhausted", None)
                break
            except StopSession:
                sim.end_session("stopped-by-consumer", None)
                run.probe("session_cut")
                break
            except (FandangoError, ValueError, AssertionError, IndexError, KeyError) as e:
                import traceback

                run.info["raised_traceback"] = norm("".join(traceback.format_exception(type(e), e, e.__traceback__))[-2500:])
                sim.end_session("raised", None, raised=e)
                break
    finally:
        if gen is not None:
            try:
                gen.close()
            except BaseException:
                pass
        sim.uninstall()
    n_frag = run.probes.get("fragmented_delivery", 0)
    run.nontrivial = run.steps >= 2 and (run.probes.get("remote_msg_parsed", 0) > 0 and n_frag > 0 or sum(run.faults.values()) > 0)
    run.info = {"sessions": len(sim.sessions), "steps": run.steps, "faults": dict(run.faults), "fault_mode": sim.fault_mode}
