"""TreeSim (C09, C10): a pool of real derivation trees driven against a pure model.

One run = a pool (<= 6) of real ``DerivationTree`` objects, each with a model twin
(``oracles.treemodel``), and a decision-drawn history of <= 40 tree operations: structural
edits (add_child, set_children, setters, append with valid and invalid hook-in paths,
in-place split_end/prefix), operations that must return new trees (deepcopy in all flag
combinations, copying split_end/prefix, replace, replace_multiple with a real grammar) and
read-only ones (indexing, slicing, every selector class of ``language/search.py``, flatten,
find_*, get_path/get_root/get_choices_path, hash, ==, size, and the value conversions).
Leaves of all trees share one small palette of ``Terminal`` objects.

After EVERY operation the whole pool is compared with the models:

* C10: size()/hash() of every node against recomputation (hash: a tree freshly rebuilt from
  the model), parent links, equality between pool members iff models equal, inputs of
  read-only operations and bystander trees unchanged (structure and node identity), results
  of replace*/deepcopy/copying split share no node object with any input.
* C09: each conversion against the model fold where the property pins the answer down,
  every (tree model, conversion) answer is a pure function over the whole run, an earlier
  conversion is repeated after every operation, the shared palette ``TreeValue`` objects
  (and the mutable default ``trailing_bits`` list) are unchanged.
"""

from __future__ import annotations

from oracles import treemodel as M
from simfw.run import Run
from sims.common import cached_spec

NAME = "treesim"


def _text_then_bits(model) -> bool:
    """A non-ASCII text leaf is followed, later in the leaf sequence, by bit leaves that complete
    whole bytes with no bytes leaf in between -- the situation in which to_string() and to_bytes()
    encode the text part differently."""
    seen_text = False
    for lf in M.leaves(model):
        v = lf[0]
        if isinstance(v, str) and any(ord(c) > 127 for c in v):
            seen_text = True
        elif isinstance(v, bytes) and len(v) > 0:
            seen_text = False
        elif isinstance(v, int) and not isinstance(v, bool) and seen_text:
            return True
    return False


META = {
    "rule": "one run = a pool of <= 6 real trees (shared Terminal palette) and 5..40 tree operations; non-trivial = >= 5 operations of which >= 1 mutating operation happened after a hash or value conversion was taken on the same pool (caches may be stale); distinct = distinct event-log digests",
    "state_measure": "(operation class, pool size, depth class and size class of the operand tree, whether a hash/conversion was observed on it before)",
    "components": {
        "real": ["DerivationTree (all public mutators, copy/split/prefix, replace/replace_multiple, accessors)", "SliceTree", "TreeValue", "Terminal / NonTerminal / Slice symbols", "language/search.py selector classes", "Grammar (populate_sources / generators lookup inside replace_multiple)"],
        "stub": [],
    },
    "expected_probes": [
        "edit_below_cached_hash",
        "conversion_on_shared_terminal",
        "append_raised",
        "append_valid",
        "slice_taken",
        "replace",
        "replace_multiple",
        "bits_span_siblings",
        "deepcopy_partial_flags",
        "inplace_split",
        "misaligned_conversion",
        "aligned_binary_conversion",
        "recheck_earlier_conversion",
        "equal_models_in_pool",
        "text_bytes_lookalike_pair",
        "item_search_slice",
    ],
    "bounds": {"operations": "5..40", "pool": "<= 6 trees", "nodes_per_tree": "<= 60", "depth": "<= ~6"},
    "assumptions": [
        "operands handed to add_child/set_children/append are fresh trees (a caller inserting a node that already hangs in another tree is outside the property)",
        "replace/replace_multiple are called on the root with replacees inside that tree, pairwise disjoint, replaced by a subtree of the same symbol (as crossover/mutation/fix_individual do)",
        "the value oracle is restricted to what C09 pins down: byte-aligned trees, mis-aligned text/bytes leaves, bit-only trees; everything else is checked for history independence only",
        "no generator sources (`sources`) on the simulated trees",
    ],
}

GRAMMAR = "<start> ::= <a> <b> <c>\n<a> ::= 'x' | <a> <b>\n<b> ::= 'y' | <c>*\n<c> ::= 'z'\n"

TEXTS = ["x", "y", "z", "a", "é", "€", ""]
BYTESV = [b"a", b"\xff\x01", b"\xe9", b"\x00"]
NAMES = ["<a>", "<b>", "<c>"]
PARTIES = [None, "A", "B"]
LOOKALIKE = {"a": b"a", b"a": "a", "é": b"\xe9", b"\xe9": "é"}
MAX_NODES = 60
MAX_POOL = 6

OPS = [
    "observe",  # 0: size / hash / len (simplest)
    "construct",
    "add_child",
    "set_children",
    "set_symbol",
    "set_party",
    "append",
    "deepcopy",
    "split_end",
    "prefix",
    "replace",
    "replace_multiple",
    "getitem",
    "search",
    "accessor",
    "convert",
    "eq",
]
WEIGHTS = [3, 2, 4, 3, 3, 2, 4, 3, 3, 3, 3, 2, 4, 4, 3, 8, 2]
MUTATING = {"add_child", "set_children", "set_symbol", "set_party", "append", "split_end-inplace", "prefix-inplace"}


def _pstr(path) -> str:
    return "/" + ".".join(str(i) for i in path)


class _Entry:
    __slots__ = ("root", "model", "nodes", "frozens", "frozen", "observed", "tainted", "label", "rb_nodes", "rb_frozen", "norm")

    def __init__(self, root, model, label):
        self.root = root
        self.model = model
        self.nodes: list = []
        self.frozens: list = []
        self.frozen = None
        self.observed = False
        self.tainted = False
        self.label = label
        self.rb_nodes = None
        self.rb_frozen = None
        self.norm = None


class _Res:
    """What an operation did: entries edited in place, new trees, read-only or not."""

    def __init__(self, op, readonly=True, mutated=(), new=(), disjoint=False, source=None):
        self.op = op
        self.source = source  # the pool entry a new tree was derived from
        self.readonly = readonly
        self.mutated = list(mutated)
        self.new = list(new)  # [(real root, model)]
        self.disjoint = disjoint


class _Sim:
    def __init__(self, run: Run):
        from fandango.language import search as S
        from fandango.language.symbols import NonTerminal, Terminal
        from fandango.language.tree import DerivationTree, SliceTree
        from fandango.language.tree_value import TreeValue

        self.run = run
        self.ch = run.ch
        self.S = S
        self.DT = DerivationTree
        self.SliceTree = SliceTree
        self.TreeValue = TreeValue
        self.NonTerminal = NonTerminal
        # ---- the shared symbol palette (fresh objects per run) -------------------------------
        self.sym: dict = {}  # model key -> canonical symbol object
        self.alt: dict = {}  # model key -> a second, equal symbol object
        self.symkey: dict = {}  # id(symbol object) -> model key
        for name in NAMES:
            self._reg(M.NT(name), NonTerminal(name))
        self._reg(M.NT("<a>"), NonTerminal("<a>"), alt=True)
        for v in TEXTS + BYTESV + [0, 1]:
            self._reg(M.TM(v), Terminal(v))
        self._reg(M.TM("x"), Terminal("x"), alt=True)
        self._reg(M.TM(1), Terminal(1), alt=True)
        self.palette = list(self.sym.items()) + [(("alt",) + k, o) for k, o in self.alt.items()]
        self.kwdefault = TreeValue.__init__.__kwdefaults__
        self.pal_objs = [(o, o.value()) for _k, o in self.palette]
        self._palette_resnap()
        # ---- state ---------------------------------------------------------------------------
        self.pool: list[_Entry] = []
        self.n_labels = 0
        self.memo: dict = {}  # (frozen subtree, conv) -> outcome
        self.records: list = []  # keys of memo in order of first observation
        self.reported: set = set()
        self.n_ops = 0
        self.n_mut_after_obs = 0
        self.any_observed = False
        self.grammar = None

    # ------------------------------------------------------------------------------------
    # symbols / building real trees
    # ------------------------------------------------------------------------------------
    def _reg(self, key, obj, alt=False):
        (self.alt if alt else self.sym)[key] = obj
        self.symkey[id(obj)] = key

    def _key_of(self, sym):
        k = self.symkey.get(id(sym))
        if k is not None:
            return k
        # a symbol object the simulator did not hand out: derive the key from its value
        if sym.is_non_terminal:
            return M.NT(sym.name())
        if sym.is_terminal:
            v = sym.value()
            if v._value is None:
                tb = tuple(v._trailing_bits)
                return M.TM(tb[0]) if len(tb) == 1 else ("T", ("bits",) + tb)
            if v._trailing_bits:
                return ("T", (v._value, "bits") + tuple(v._trailing_bits))
            return M.TM(v._value)
        return ("S", type(sym).__name__)

    def build(self, m):
        """A fresh real tree (new node objects, palette symbols) from a model or frozen model."""
        DT = self.DT
        sym = self.sym

        def rec(n):
            return DT(sym[n[0]], [rec(c) for c in n[3]], sender=n[1], recipient=n[2])

        return rec(m)

    def _rebuilt_nodes(self, frozen_root):
        """Preorder node list of a tree freshly built from ``frozen_root`` (None if it contains a
        symbol outside the palette: that is reported as a structure problem elsewhere)."""
        try:
            real = self.build(frozen_root)
        except KeyError:
            return None
        out: list = []
        stack = [real]
        while stack:
            n = stack.pop()
            out.append(n)
            stack.extend(reversed(n.children))
        return out

    def _palette_fast(self):
        """Cheap identity/value check of the shared values; the full snapshot (repr, type_) is a
        function of exactly these fields and is only recomputed for the report."""
        out = []
        for o, v in self.pal_objs:
            out.append(o._value is v)
            out.append(v._value)
            out.append(v._trailing_bits)
        out.append(self.kwdefault["trailing_bits"])
        return out

    def _palette_changed(self):
        cur = self._palette_fast()
        ref = self.pal_fast
        if len(cur) != len(ref):
            return True
        for a, b in zip(cur, ref):
            if type(a) is not type(b) or a != b:
                return True
        return False

    def _palette_restore(self):
        """After a reported change: put the recorded values back so that the rest of the run (and
        the simulator's own use of the symbols) stays meaningful."""
        ref = self.pal_fast
        for i, (o, v) in enumerate(self.pal_objs):
            o._value = v
            v._value = ref[3 * i + 1]
            v._trailing_bits = list(ref[3 * i + 2])
        del self.kwdefault["trailing_bits"][:]
        self._palette_resnap()

    def _palette_resnap(self):
        self.pal_snap = self._palette_snapshot()
        self.pal_fast = [list(x) if isinstance(x, list) else x for x in self._palette_fast()]

    def _palette_snapshot(self):
        snap = []
        for k, o in self.palette:
            v = o.value()
            snap.append((k, repr(v), v._value, tuple(v._trailing_bits), v.type_.name, id(v)))
        snap.append(("kwdefault", tuple(self.kwdefault["trailing_bits"])))
        return snap

    # ------------------------------------------------------------------------------------
    # reporting
    # ------------------------------------------------------------------------------------
    def report(self, prop, cls, kind, op, detail, entry=None):
        if entry is not None and entry.tainted:
            sig = "%s:later:after-slice-reparent" % kind
        elif op:
            sig = "%s:after:%s" % (kind, op)
        else:
            sig = kind
        if (prop, sig) in self.reported:
            return
        self.reported.add((prop, sig))
        hist = "\n".join(self.run.ops[-12:])
        self.run.violation(prop, cls, sig, "%s\nlast operations:\n%s" % (detail, hist))

    # ------------------------------------------------------------------------------------
    # scanning a real tree
    # ------------------------------------------------------------------------------------
    def scan(self, root):
        """-> (frozen, nodes preorder, frozens preorder, problems [(kind, preorder index)])."""
        nodes: list = []
        frozens: list = []
        probs: list = []
        key_of = self._key_of
        symkey = self.symkey

        def rec(n, parent):
            idx = len(nodes)
            if idx > 400:
                raise RuntimeError("runaway")
            nodes.append(n)
            frozens.append(None)
            if n.parent is not parent:
                probs.append(("parent-link", idx))
            fk = []
            sz = 1
            for c in n.children:
                f, s = rec(c, n)
                fk.append(f)
                sz += s
            s_ = n.symbol
            k = symkey.get(id(s_))
            if k is None:
                k = key_of(s_)
            fr = (k, n.sender, n.recipient, tuple(fk))
            frozens[idx] = fr
            if n.size() != sz:
                probs.append(("size", idx))
            return fr, sz

        try:
            frozen, _ = rec(root, None)
        except RuntimeError:
            probs.append(("runaway", 0))
            frozen = ("?", None, None, ())
            return frozen, nodes, frozens, probs
        return frozen, nodes, frozens, probs

    def _install(self, e: _Entry, frozen, nodes, frozens):
        if e.frozen is None or frozen != e.frozen:
            e.norm = None
        e.frozen, e.nodes, e.frozens = frozen, nodes, frozens

    def _rebuild(self, e: _Entry, frozen):
        """Re-sync after a violation: model := real structure, real := fresh tree of that model."""
        e.model = M.thaw(frozen)
        try:
            e.root = self.build(frozen)
        except KeyError:
            pass
        fr, nodes, frozens, _ = self.scan(e.root)
        self._install(e, fr, nodes, frozens)
        e.tainted = False

    # ------------------------------------------------------------------------------------
    # the whole-pool comparison after an operation
    # ------------------------------------------------------------------------------------
    def verify(self, res: _Res, pre_ids: set):
        op = res.op
        run = self.run
        # ---- C09 (c): shared Terminal values untouched ------------------------------------
        if self._palette_changed():
            snap = self._palette_snapshot()
            diff = [(a, b) for a, b in zip(self.pal_snap, snap) if a != b]
            self.report("C09", "shared-value-mutated", "value-changed:shared-terminal", op, "palette TreeValue changed (was, now): %r" % (diff[:3],))
            self._palette_restore()
        seen_ids: dict = {}
        # ---- existing pool members ------------------------------------------------------------
        for e in list(self.pool):
            frozen, nodes, frozens, probs = self.scan(e.root)
            resync = False
            in_place = any(e is x for x in res.mutated)
            if in_place:
                want = M.freeze(e.model)
                if frozen != want:
                    self.report("C10", "op-result", "op-result", op, "%s: real tree %s\nmodel expects %s" % (e.label, M.show(M.thaw(frozen)), M.show(e.model)), e)
                    resync = True
            else:
                if frozen != e.frozen:
                    if res.readonly:
                        self.report("C10", "readonly-modifies", "readonly-modified", op, "%s was %s\nnow %s" % (e.label, M.show(M.thaw(e.frozen)), M.show(M.thaw(frozen))), e)
                        if op.startswith("conv-"):
                            self.report("C09", "conversion-modifies-tree", "tree-changed", op, "%s was %s\nnow %s" % (e.label, M.show(M.thaw(e.frozen)), M.show(M.thaw(frozen))), e)
                    else:
                        self.report("C10", "aliasing", "bystander-changed", op, "%s (not an operand edited in place) was %s\nnow %s" % (e.label, M.show(M.thaw(e.frozen)), M.show(M.thaw(frozen))), e)
                    resync = True
                elif len(nodes) != len(e.nodes) or any(a is not b for a, b in zip(nodes, e.nodes)):
                    self.report("C10", "identity", "node-identity-changed", op, "%s: node objects of an untouched tree were exchanged" % e.label, e)
            # bookkeeping of every node
            kinds = []
            for kind, idx in probs:
                if kind == "parent-link" and e.tainted:
                    continue
                if kind not in kinds:
                    kinds.append(kind)
                    p = M.path_of_index(M.thaw(frozen), idx)
                    if kind == "parent-link":
                        n = nodes[idx]
                        par = n.parent
                        what = "None" if par is None else type(par).__name__ + "(" + str(self._key_of(par.symbol)) + ")"
                        detail = "%s: node %s at %s has parent %s, but is listed by %s" % (e.label, frozens[idx][0], _pstr(p or ()), what, "nobody (root)" if idx == 0 else "its tree parent")
                        k2 = "parent-link:root" if idx == 0 else "parent-link"
                        self.report("C10", "bookkeeping", k2, op, detail, e)
                    elif kind == "size":
                        detail = "%s: node at %s reports size() %d, recomputation gives %d" % (e.label, _pstr(p or ()), nodes[idx].size(), M.size(M.thaw(frozens[idx])))
                        self.report("C10", "bookkeeping", "size", op, detail, e)
                    else:
                        self.report("C10", "bookkeeping", kind, op, "%s: traversal did not terminate" % e.label, e)
            # hashes against a tree rebuilt from the (real) structure
            if e.rb_nodes is not None and frozen == e.rb_frozen:
                rbn = e.rb_nodes
            else:
                rbn = self._rebuilt_nodes(frozen)
                e.rb_nodes, e.rb_frozen = rbn, frozen
            bad_hash = None
            if rbn is not None:
                for i, n in enumerate(nodes):
                    if hash(n) != hash(rbn[i]):
                        bad_hash = i
                        break
            if bad_hash is not None:
                p = M.path_of_index(M.thaw(frozen), bad_hash)
                self.report("C10", "bookkeeping", "hash-stale", op, "%s: hash() of node at %s differs from the hash of a freshly built tree of the same structure %s" % (e.label, _pstr(p or ()), M.show(M.thaw(frozens[bad_hash]))), e)
            else:
                if rbn is not None and not (e.root == rbn[0]):
                    self.report("C10", "bookkeeping", "eq-rebuilt", op, "%s != a freshly built tree of the same structure" % e.label, e)
            damaged = bool(kinds) or bad_hash is not None
            # aliasing between pool members
            for n in nodes:
                i = id(n)
                if i in seen_ids and seen_ids[i] is not e:
                    self.report("C10", "aliasing", "shared-node", op, "%s and %s share a node object" % (seen_ids[i].label, e.label))
                    break
                seen_ids[i] = e
            # ---- re-sync ------------------------------------------------------------------------
            if damaged:
                slice_damage = (not e.tainted) and kinds == ["parent-link"] and bad_hash is None and "slice" in op
                if slice_damage and self.ch.coin(0.5, "sched", "keep-slice-damage"):
                    # leave the re-parented children as they are: later edits show the consequence
                    e.tainted = True
                    run.probe("slice_damage_kept")
                    e.model = M.thaw(frozen)
                    self._install(e, frozen, nodes, frozens)
                else:
                    self._rebuild(e, frozen)
            else:
                if resync:
                    was_tainted = e.tainted
                    if was_tainted:
                        self._rebuild(e, frozen)
                    else:
                        e.model = M.thaw(frozen)
                        self._install(e, frozen, nodes, frozens)
                else:
                    self._install(e, frozen, nodes, frozens)
        # ---- new trees ------------------------------------------------------------------------------
        for root, model in res.new:
            label = "t%d" % self.n_labels
            self.n_labels += 1
            e = _Entry(root, model, label)
            frozen, nodes, frozens, probs = self.scan(root)
            want = M.freeze(model)
            bad = False
            if frozen != want:
                self.report("C10", "op-result", "op-result", op, "result %s\nmodel expects %s" % (M.show(M.thaw(frozen)), M.show(model)), res.source)
                bad = True
            for kind, idx in probs:
                p = M.path_of_index(M.thaw(frozen), idx)
                k2 = "parent-link:root" if (kind == "parent-link" and idx == 0) else kind
                self.report("C10", "bookkeeping", k2 + ":result", op, "result node at %s: %s inconsistent" % (_pstr(p or ()), kind), res.source)
                bad = True
            rbn = self._rebuilt_nodes(frozen)
            for i, n in enumerate(nodes):
                if rbn is not None and hash(n) != hash(rbn[i]):
                    self.report("C10", "bookkeeping", "hash-stale:result", op, "result node #%d hash differs from a freshly built tree" % i, res.source)
                    bad = True
                    break
            if res.disjoint:
                shared = [i for i, n in enumerate(nodes) if id(n) in pre_ids]
                if shared:
                    p = M.path_of_index(M.thaw(frozen), shared[0])
                    self.report("C10", "aliasing", "result-shares-node", op, "the result shares %d node object(s) with its inputs, first at %s" % (len(shared), _pstr(p or ())), res.source)
                    bad = True
            for n in nodes:
                i = id(n)
                if i in seen_ids:
                    break
                seen_ids[i] = e
            if bad:
                e.model = M.thaw(frozen)
                try:
                    e.root = self.build(frozen)
                except KeyError:
                    continue  # contains a symbol outside the palette (e.g. a Slice): not usable as an operand
                frozen, nodes, frozens, _ = self.scan(e.root)
            self._install(e, frozen, nodes, frozens)
            if not bad:
                e.rb_nodes, e.rb_frozen = rbn, frozen
            if len(self.pool) >= MAX_POOL:
                j = self.ch.draw(len(self.pool), "work", "evict")
                self.pool[j] = e
            else:
                self.pool.append(e)
        # ---- equality between pool members iff models equal ---------------------------------------------
        P = self.pool
        for i in range(len(P)):
            for j in range(i + 1, len(P)):
                if P[i].tainted or P[j].tainted:
                    continue
                a, b = P[i], P[j]
                if a.frozen != b.frozen:
                    if a.norm is None:
                        a.norm = _normalise(a.frozen)
                    if b.norm is None:
                        b.norm = _normalise(b.frozen)
                    look = a.norm == b.norm
                else:
                    look = False
                self._check_eq(a.root, b.root, a.frozen, b.frozen, "%s vs %s" % (a.label, b.label), look)

    def _check_eq(self, a, b, fa, fb, what, look=None):
        want = fa == fb
        if want:
            self.run.probe("equal_models_in_pool")
        try:
            got = a == b
            got_ne = a != b
        except Exception as ex:  # pragma: no cover - would be a finding
            self.report("C10", "equality", "eq-raised:%s" % type(ex).__name__, "", what)
            return
        if look is None:
            look = (not want) and _normalise(fa) == _normalise(fb)
        if look:
            self.run.probe("text_bytes_lookalike_pair")
        if got != want:
            cls = "unequal-models-equal-trees" if got else "equal-models-unequal-trees"
            if look:
                cls += ":text-vs-bytes-leaf"
            self.report("C10", "equality", "eq-differs:" + cls, "", "%s: == gives %s but models are %s\n%s\n%s" % (what, got, "equal" if want else "different", M.show(M.thaw(fa)), M.show(M.thaw(fb))))
        if got_ne == got:
            self.report("C10", "equality", "eq-ne-inconsistent", "", what)

    # ------------------------------------------------------------------------------------
    # operand selection
    # ------------------------------------------------------------------------------------
    def pick_entry(self, label="tree") -> _Entry:
        return self.pool[self.ch.draw(len(self.pool), "work", label)]

    def pick_path(self, m, label, pred=None):
        paths = [p for p in M.preorder_paths(m) if pred is None or pred(M.at(m, p))]
        if not paths:
            return None
        return paths[self.ch.draw(len(paths), "work", label)]

    def real_at(self, root, path):
        n = root
        for i in path:
            n = n.children[i]
        return n

    def gen_leaf(self):
        ch = self.ch
        k = ch.weighted([6, 2, 2], "work", "leafkind")
        if k == 0:
            return M.node(M.TM(ch.pick(TEXTS, "work", "text")))
        if k == 1:
            return M.node(M.TM(ch.draw(2, "work", "bit")))
        return M.node(M.TM(ch.pick(BYTESV, "work", "bytes")))

    def gen_leaf_nobit(self):
        ch = self.ch
        if ch.draw(3, "work", "leafkind") == 2:
            return M.node(M.TM(ch.pick(BYTESV, "work", "bytes")))
        return M.node(M.TM(ch.pick(TEXTS, "work", "text")))

    def gen_model(self, budget, name=None):
        ch = self.ch
        box = [budget]

        def gen(name, depth):
            box[0] -= 1
            n = M.node(M.NT(name or ch.pick(NAMES, "work", "nt")))
            if ch.coin(0.15, "work", "party"):
                n[1] = ch.pick(["A", "B"], "work", "sender")
                n[2] = ch.pick(PARTIES, "work", "recipient")
            k = [1, 2, 3, 0, 4][ch.draw(5, "work", "nkids")]
            for _ in range(k):
                if box[0] <= 0:
                    break
                kind = ch.weighted([5, 3, 3, 1, 2, 2], "work", "kidkind")
                if kind == 1 and depth < 3 and box[0] >= 2:
                    n[3].append(gen(None, depth + 1))
                elif kind == 4 and box[0] >= 11:
                    # one byte of bits split over two sibling subtrees, optionally followed (inside the
                    # second subtree or after it) by a leaf that needs a byte boundary
                    r1 = [4, 3, 1, 7][ch.draw(4, "work", "split-at")]
                    left = M.node(M.NT(ch.pick(NAMES, "work", "nt")), [M.node(M.TM(ch.draw(2, "work", "bit"))) for _i in range(r1)])
                    right = M.node(M.NT(ch.pick(NAMES, "work", "nt")), [M.node(M.TM(ch.draw(2, "work", "bit"))) for _i in range(8 - r1)])
                    n[3].extend([left, right])
                    box[0] -= 10
                    tail = ch.draw(4, "work", "after-bits")
                    if tail in (1, 2):
                        right[3].append(self.gen_leaf_nobit())
                        box[0] -= 1
                    elif tail == 3:
                        n[3].append(self.gen_leaf_nobit())
                        box[0] -= 1
                elif kind == 5 and box[0] >= 9:
                    n[3].append(M.node(M.TM(ch.pick(["é", "€", "x"], "work", "text"))))
                    for _i in range(8):
                        n[3].append(M.node(M.TM(ch.draw(2, "work", "bit"))))
                    box[0] -= 9
                    if ch.draw(3, "work", "bits-last") != 2:
                        break  # keep the byte of bits at the end of this node
                elif kind == 2:
                    r = min([8, 4, 1, 3][ch.draw(4, "work", "bitrun")], box[0])
                    for _i in range(r):
                        n[3].append(M.node(M.TM(ch.draw(2, "work", "bit"))))
                    box[0] -= r
                elif kind == 3:
                    n[3].append(M.node(M.TM(ch.pick(BYTESV, "work", "bytes"))))
                    box[0] -= 1
                else:
                    n[3].append(M.node(M.TM(ch.pick(TEXTS, "work", "text"))))
                    box[0] -= 1
            return n

        return gen(name, 0)

    def gen_operand(self, room, name=None):
        """A fresh subtree model of at most ``room`` nodes (a leaf, a bit, or a small tree)."""
        ch = self.ch
        k = ch.weighted([4, 3, 2], "work", "operand")
        if name is None and (k == 0 or room < 2):
            return self.gen_leaf()
        if name is None and k == 2:
            return M.node(M.TM(ch.draw(2, "work", "bit")))
        return self.gen_model(max(1, min(room, ch.rng_range(1, 6, "work", "operand-budget"))), name)

    # ------------------------------------------------------------------------------------
    # operations
    # ------------------------------------------------------------------------------------
    def _note_mutation(self, e: _Entry, path):
        if self.any_observed:
            self.n_mut_after_obs += 1
        if e.observed and len(path) > 0:
            self.run.probe("edit_below_cached_hash")

    def op_construct(self):
        ch = self.ch
        m = None
        if self.pool and ch.draw(5, "work", "construct-how") == 4:
            # a different tree that only differs from a pool member in text-vs-bytes leaves
            src = self.pick_entry()
            m = M.clone(src.model)
            swapped = 0
            for p in M.preorder_paths(m):
                nd = M.at(m, p)
                if M.is_t(nd) and nd[0][1] in LOOKALIKE and (swapped == 0 or ch.draw(2, "work", "swap") == 0):
                    nd[0] = M.TM(LOOKALIKE[nd[0][1]])
                    swapped += 1
            if swapped == 0:
                m = None
        if m is None:
            m = self.gen_model(ch.rng_range(3, 24, "work", "budget"))
        real = self.build(m)
        self.run.op("construct %s" % M.show(m))
        return _Res("construct", readonly=False, new=[(real, m)])

    def op_observe(self):
        e = self.pick_entry()
        path = self.pick_path(e.model, "node")
        n = self.real_at(e.root, path)
        k = self.ch.draw(3, "work", "observe")
        sub = M.at(e.model, path)
        if k == 0:
            got, want, name = n.size(), M.size(sub), "size"
        elif k == 1:
            got = hash(n)
            try:
                want = hash(self.build(sub))
            except KeyError:
                want = got
            name = "hash"
            e.observed = True
            self.any_observed = True
        else:
            got, want, name = (len(n), n.count_terminals()), (len(sub[3]), len(M.leaves(sub)) if M.is_nt(sub) else 1), "len+count_terminals"
        self.run.op("%s(%s@%s)" % (name, e.label, _pstr(path)))
        if got != want:
            self.report("C10", "bookkeeping", "accessor-result:" + name, "observe", "%s@%s: %s gives %r, recomputation %r" % (e.label, _pstr(path), name, got if name != "hash" else "?", want if name != "hash" else "?"), e)
        return _Res("observe-" + name)

    def op_add_child(self):
        e = self.pick_entry()
        path = self.pick_path(e.model, "node", M.is_nt)
        room = MAX_NODES - M.size(e.model)
        if path is None or room < 1:
            self.run.op("add_child skipped (tree full)")
            return _Res("skip")
        sub = self.gen_operand(room)
        self._note_mutation(e, path)
        self.run.op("add_child(%s@%s, %s)" % (e.label, _pstr(path), M.show(sub)))
        self.real_at(e.root, path).add_child(self.build(sub))
        M.add_child(e.model, path, sub)
        return _Res("add_child", readonly=False, mutated=[e])

    def op_set_children(self):
        e = self.pick_entry()
        path = self.pick_path(e.model, "node", M.is_nt)
        if path is None:
            self.run.op("set_children skipped (no nonterminal node)")
            return _Res("skip")
        n = self.real_at(e.root, path)
        mn = M.at(e.model, path)
        how = self.ch.draw(5, "work", "setkids")
        self._note_mutation(e, path)
        if how == 0:
            desc = "children[:-1]"
            n.set_children(n.children[:-1])
            M.set_children(e.model, path, mn[3][:-1])
        elif how == 1:
            desc = "reversed"
            n.set_children(n.children[::-1])
            M.set_children(e.model, path, mn[3][::-1])
        elif how == 2:
            room = MAX_NODES - (M.size(e.model) - M.size(mn) + 1)
            kids = []
            for _ in range(self.ch.rng_range(1, 3, "work", "nnew")):
                if room < 1:
                    break
                k = self.gen_operand(room)
                room -= M.size(k)
                kids.append(k)
            desc = "fresh [%s]" % ",".join(M.show(k) for k in kids)
            n.set_children([self.build(k) for k in kids])
            M.set_children(e.model, path, kids)
        elif how == 3:
            desc = "[]"
            n.set_children([])
            M.set_children(e.model, path, [])
        else:
            desc = "same list object"
            n.set_children(n.children)
        self.run.op("set_children(%s@%s, %s)" % (e.label, _pstr(path), desc))
        return _Res("set_children", readonly=False, mutated=[e])

    def op_set_symbol(self):
        ch = self.ch
        e = self.pick_entry()
        path = self.pick_path(e.model, "node")
        mn = M.at(e.model, path)
        n = self.real_at(e.root, path)
        use_alt = False
        if M.is_nt(mn):
            name = ch.pick(NAMES, "work", "newnt")
            key = M.NT(name)
            use_alt = key in self.alt and ch.coin(0.3, "work", "alt-object")
        else:
            v = mn[0][1]
            how = ch.weighted([3, 2, 2, 2], "work", "newterm")
            if how == 1 and v in LOOKALIKE:
                key = M.TM(LOOKALIKE[v])
            elif how == 1:
                key = M.TM(ch.pick(["a", "é"], "work", "text"))
            elif how == 2:
                key = M.TM(ch.draw(2, "work", "bit"))
            elif how == 3:
                key = M.TM(ch.pick(BYTESV, "work", "bytes"))
            else:
                key = M.TM(ch.pick(TEXTS, "work", "text"))
            use_alt = key in self.alt and ch.coin(0.3, "work", "alt-object")
        obj = self.alt[key] if use_alt else self.sym[key]
        self._note_mutation(e, path)
        self.run.op("symbol(%s@%s) = %r%s" % (e.label, _pstr(path), key[1], " (second equal object)" if use_alt else ""))
        n.symbol = obj
        M.set_symbol(e.model, path, key)
        return _Res("set_symbol", readonly=False, mutated=[e])

    def op_set_party(self):
        ch = self.ch
        e = self.pick_entry()
        path = self.pick_path(e.model, "node")
        n = self.real_at(e.root, path)
        who = ch.pick(PARTIES, "work", "who")
        self._note_mutation(e, path)
        if ch.draw(2, "work", "which") == 0:
            self.run.op("sender(%s@%s) = %r" % (e.label, _pstr(path), who))
            n.sender = who
            M.set_sender(e.model, path, who)
        else:
            self.run.op("recipient(%s@%s) = %r" % (e.label, _pstr(path), who))
            n.recipient = who
            M.set_recipient(e.model, path, who)
        return _Res("set_party", readonly=False, mutated=[e])

    def op_append(self):
        ch = self.ch
        e = self.pick_entry()
        path = self.pick_path(e.model, "node", M.is_nt)
        room = MAX_NODES - M.size(e.model)
        if path is None or room < 5:
            self.run.op("append skipped (tree full)")
            return _Res("skip")
        mn = M.at(e.model, path)
        n = self.real_at(e.root, path)
        steps = ch.draw(4, "work", "hooklen")
        hook = []
        if ch.draw(3, "work", "hookstyle") != 2:
            # follow the existing last-child chain where possible: valid by construction
            cur = mn
            fresh = False
            for _ in range(steps):
                if not fresh and cur[3] and M.is_nt(cur[3][-1]) and ch.draw(4, "work", "follow") != 3:
                    cur = cur[3][-1]
                    hook.append((cur[0][1], False))
                else:
                    fresh = True
                    hook.append((ch.pick(NAMES, "work", "hooknt"), True))
        else:
            for _ in range(steps):
                hook.append((ch.pick(NAMES, "work", "hooknt"), ch.draw(3, "work", "hooknew") == 1))
        sub = self.gen_operand(room - 3)
        valid = M.append_valid(e.model, path, hook)
        real_hook = tuple((self.sym[M.NT(nm)], new) for nm, new in hook)
        self._note_mutation(e, path)
        self.run.op("append(%s@%s, [%s], %s) %s" % (e.label, _pstr(path), " ".join(("+" if nw else "") + nm for nm, nw in hook), M.show(sub), "valid" if valid else "INVALID"))
        try:
            n.append(real_hook, self.build(sub))
            raised = None
        except Exception as ex:
            raised = type(ex).__name__
        self.run.event("append", valid, raised)
        if raised is None:
            self.run.probe("append_valid")
            if not valid:
                self.report("C10", "op-result", "append-accepted-invalid-path", "append", "hook-in path %r does not exist below %s@%s but append() succeeded" % (hook, e.label, _pstr(path)), e)
                e.model = M.thaw(self.scan(e.root)[0])
            else:
                M.append(e.model, path, hook, sub)
        else:
            # an operation that failed part-way = injected fault: whatever it did, bookkeeping must hold
            self.run.fault("append_raised")
            self.run.probe("append_raised")
            if valid or raised != "ValueError":
                self.report("C10", "op-result", "append-raised:%s" % raised, "append", "hook-in path %r below %s@%s is %s but append() raised %s" % (hook, e.label, _pstr(path), "valid" if valid else "invalid", raised), e)
            e.model = M.thaw(self.scan(e.root)[0])
            return _Res("append-raised", readonly=False, mutated=[e])
        return _Res("append", readonly=False, mutated=[e])

    def op_deepcopy(self):
        ch = self.ch
        e = self.pick_entry()
        path = self.pick_path(e.model, "node")
        n = self.real_at(e.root, path)
        flags = ch.draw(8, "work", "copyflags")
        cc, cp, cpar = not (flags & 1), not (flags & 2), not (flags & 4)
        if flags:
            self.run.probe("deepcopy_partial_flags")
        self.run.op("deepcopy(%s@%s, copy_children=%s, copy_params=%s, copy_parent=%s)" % (e.label, _pstr(path), cc, cp, cpar))
        r = n.deepcopy(copy_children=cc, copy_params=cp, copy_parent=cpar)
        m, rpath = M.deepcopy(e.model, path, cc, cpar)
        top, got_path = self._climb(r)
        if got_path != tuple(rpath):
            self.report("C10", "op-result", "copy-position", "deepcopy", "the copy sits at %s of its tree, expected %s" % (_pstr(got_path or ()), _pstr(rpath)), e)
        return _Res("deepcopy" + ("" if flags == 0 else "-flags"), readonly=True, new=[(top, m)], disjoint=True, source=e)

    def _climb(self, r):
        """Root of the tree ``r`` hangs in (following parent links) and r's child-index path."""
        path = []
        cur = r
        for _ in range(200):
            par = cur.parent
            if par is None:
                break
            idx = None
            for i, c in enumerate(par.children):
                if c is cur:
                    idx = i
                    break
            if idx is None:
                return cur, None
            path.append(idx)
            cur = par
        return cur, tuple(reversed(path))

    def op_split(self, prefix: bool):
        ch = self.ch
        e = self.pick_entry()
        path = self.pick_path(e.model, "node")
        n = self.real_at(e.root, path)
        copy_tree = ch.draw(2, "work", "copy_tree") == 0
        name = "prefix" if prefix else "split_end"
        self.run.op("%s(%s@%s, copy_tree=%s)" % (name, e.label, _pstr(path), copy_tree))
        if not copy_tree:
            self.run.probe("inplace_split")
            self._note_mutation(e, path)
        try:
            r = n.prefix(copy_tree) if prefix else n.split_end(copy_tree)
            raised = None
        except Exception as ex:
            r, raised = None, type(ex).__name__
        self.run.event(name, copy_tree, raised)
        if prefix and len(path) == 0:
            # the prefix of a root does not exist: an error is the documented (assert) outcome
            if raised is None:
                self.run.event("prefix-of-root-returned")
            return _Res(name + "-of-root", readonly=True)
        if raised is not None:
            self.report("C10", "op-result", "%s-raised:%s" % (name, raised), name, "%s@%s" % (e.label, _pstr(path)), e)
            if not copy_tree:
                e.model = M.thaw(self.scan(e.root)[0])
                return _Res(name + "-inplace", readonly=False, mutated=[e])
            return _Res(name, readonly=True)
        if copy_tree:
            m = M.clone(e.model)
            want_path = M.prefix(m, path) if prefix else (M.split_end(m, path) or tuple(path))
            top, got_path = self._climb(r)
            if got_path != tuple(want_path):
                self.report("C10", "op-result", "result-position", name, "the result sits at %s of its tree, expected %s" % (_pstr(got_path or ()), _pstr(want_path)), e)
            return _Res(name, readonly=True, new=[(top, m)], disjoint=True, source=e)
        want_path = M.prefix(e.model, path) if prefix else (M.split_end(e.model, path) or tuple(path))
        top, got_path = self._climb(r)
        if top is not e.root or got_path != tuple(want_path):
            self.report("C10", "op-result", "result-position", name + "-inplace", "the result is not the expected node %s of %s" % (_pstr(want_path), e.label), e)
        return _Res(name + "-inplace", readonly=False, mutated=[e])

    def _replacement_for(self, name, room):
        """(real node or fresh real tree, model, description) with symbol ``name``."""
        ch = self.ch
        cands = []
        for e in self.pool:
            for p in M.find_all_nodes(e.model, name):
                if M.size(M.at(e.model, p)) <= room:
                    cands.append((e, p))
        k = ch.draw(len(cands) + 1, "work", "replacement")
        if k == 0:
            m = self.gen_model(max(1, min(room, ch.rng_range(1, 6, "work", "operand-budget"))), name)
            return self.build(m), m, "fresh " + M.show(m)
        e, p = cands[k - 1]
        return self.real_at(e.root, p), M.clone(M.at(e.model, p)), "%s@%s" % (e.label, _pstr(p))

    def op_replace(self, multiple: bool):
        ch = self.ch
        if self.grammar is None:
            self.grammar = cached_spec(GRAMMAR).grammar
        e = self.pick_entry()
        nts = [p for p in M.preorder_paths(e.model) if M.is_nt(M.at(e.model, p))]
        if not nts:
            self.run.op("replace skipped (no nonterminal node)")
            return _Res("skip")
        k = 1 if not multiple else ch.rng_range(1, 3, "work", "nrepl")
        chosen = []
        for _ in range(k):
            p = nts[ch.draw(len(nts), "work", "replacee")]
            if any(p[: len(q)] == q or q[: len(p)] == p for q in chosen):
                continue
            chosen.append(p)
        size_now = M.size(e.model)
        pairs, mpairs, descs = [], [], []
        for p in chosen:
            sub = M.at(e.model, p)
            room = MAX_NODES - size_now + M.size(sub)
            rn, rm, d = self._replacement_for(sub[0][1], max(1, room))
            size_now += M.size(rm) - M.size(sub)
            pairs.append((self.real_at(e.root, p), rn))
            mpairs.append((p, rm))
            descs.append("%s<-%s" % (_pstr(p), d))
        name = "replace_multiple" if multiple else "replace"
        self.run.probe(name)
        self.run.op("%s(%s, %s)" % (name, e.label, "; ".join(descs)))
        try:
            if multiple:
                r = e.root.replace_multiple(self.grammar, pairs)
            else:
                r = e.root.replace(self.grammar, pairs[0][0], pairs[0][1])
        except Exception as ex:
            self.report("C10", "op-result", "%s-raised:%s" % (name, type(ex).__name__), name, str(ex)[:200], e)
            return _Res(name, readonly=True)
        m = M.replace_multiple(e.model, mpairs)
        return _Res(name, readonly=True, new=[(r, m)], disjoint=True, source=e)

    def op_getitem(self):
        ch = self.ch
        e = self.pick_entry()
        path = self.pick_path(e.model, "node", lambda n: len(n[3]) > 0) or ()
        n = self.real_at(e.root, path)
        kids = list(n.children)
        nk = len(kids)
        how = ch.draw(6, "work", "getitem")
        op = "getitem-int"
        try:
            if how == 0 or nk == 0 and how != 2 and how != 5:
                i = ch.draw(max(nk, 1), "work", "index")
                desc = "[%d]" % i
                r = n[i]
                ok = nk > 0 and r is kids[i]
            elif how == 1:
                i = -1 - ch.draw(nk, "work", "index")
                desc = "[%d]" % i
                r = n[i]
                ok = r is kids[i]
            elif how == 2 or how == 5:
                op = "getitem-slice"
                if how == 2:
                    a = ch.draw(nk + 1, "work", "lo")
                    b = a + ch.draw(nk + 2 - a, "work", "len")
                    sl = slice(a, b)
                else:
                    sl = [slice(None, None, 2), slice(None), slice(-2, None), slice(None, None, -1)][ch.draw(4, "work", "slice")]
                desc = "[%s:%s%s]" % ("" if sl.start is None else sl.start, "" if sl.stop is None else sl.stop, "" if sl.step is None else ":%d" % sl.step)
                self.run.probe("slice_taken")
                r = n[sl]
                want = kids[sl]
                ok = isinstance(r, self.SliceTree) and len(r.children) == len(want) and all(x is y for x, y in zip(r.children, want))
                if ok and r.size() != 1 + sum(c.size() for c in want):
                    ok = False
            elif how == 3:
                i = ch.draw(nk, "work", "index")
                nk2 = len(kids[i].children)
                j = ch.draw(max(nk2, 1), "work", "index2")
                desc = "[%d][%d]" % (i, j)
                if nk2 == 0:
                    try:
                        n[i][j]
                        ok = False
                    except IndexError:
                        ok = True
                else:
                    ok = n[i][j] is kids[i].children[j]
            else:
                i = nk + ch.draw(2, "work", "beyond")
                desc = "[%d] (out of range)" % i
                try:
                    n[i]
                    ok = False
                except IndexError:
                    ok = True
        except Exception as ex:
            ok = nk == 0 and isinstance(ex, IndexError)
            desc = locals().get("desc", "?") + " raised " + type(ex).__name__
        self.run.op("%s@%s%s" % (e.label, _pstr(path), desc))
        if not ok:
            self.report("C10", "accessor", "accessor-result", op, "%s@%s%s did not return the addressed child(ren)" % (e.label, _pstr(path), desc), e)
        return _Res(op)

    def op_search(self):
        ch = self.ch
        S = self.S
        e = self.pick_entry()
        path = () if ch.draw(3, "work", "search-root") != 2 else (self.pick_path(e.model, "node", M.is_nt) or ())
        n = self.real_at(e.root, path)
        X = self.sym[M.NT(ch.pick(NAMES, "work", "X"))]
        Y = self.sym[M.NT(ch.pick(NAMES, "work", "Y"))]
        kind = ch.draw(10, "work", "selector")
        slice_used = False
        if kind == 0:
            s, nm = S.RuleSearch(X), "RuleSearch"
        elif kind == 1:
            s, nm = S.AttributeSearch(S.RuleSearch(X), S.RuleSearch(Y)), "AttributeSearch"
        elif kind == 2:
            s, nm = S.DescendantAttributeSearch(S.RuleSearch(X), S.RuleSearch(Y)), "DescendantAttributeSearch"
        elif kind == 3:
            i = ch.rng_range(-1, 2, "work", "item")
            s, nm = S.ItemSearch(S.RuleSearch(X), [i]), "ItemSearch-int"
        elif kind == 4:
            a = ch.draw(2, "work", "lo")
            sl = slice(a, a + 1 + ch.draw(3, "work", "len"))
            s, nm, slice_used = S.ItemSearch(S.RuleSearch(X), [sl]), "ItemSearch-slice", True
        elif kind == 5:
            items = [None, 0, slice(0, 2)][ch.draw(3, "work", "sel-items")]
            s, nm = S.SelectiveSearch(S.RuleSearch(X), [(Y, ch.draw(2, "work", "direct") == 0)], [items]), "SelectiveSearch"
        elif kind == 6:
            s, nm = S.StarSearch(S.RuleSearch(X)), "StarSearch"
        elif kind == 7:
            s, nm = S.LengthSearch(S.RuleSearch(X)), "LengthSearch"
        elif kind == 8:
            s, nm, slice_used = S.AttributeSearch(S.ItemSearch(S.RuleSearch(X), [slice(0, 2)]), S.RuleSearch(Y)), "Attribute-of-ItemSearch-slice", True
        else:
            s, nm = S.LengthSearch(S.DescendantAttributeSearch(S.RuleSearch(X), S.StarSearch(S.RuleSearch(Y)))), "Length-Descendant-Star"
        meth = ["find", "find_direct", "find_all", "quantify"][ch.draw(4, "work", "method")]
        if slice_used:
            self.run.probe("item_search_slice")
        try:
            if meth == "find_all":
                res = s.find_all([n])
            else:
                res = getattr(s, meth)(n)
            out = "%d container(s), %d tree(s)" % (len(res), sum(len(c.get_trees()) for c in res))
            if nm == "LengthSearch" and meth != "quantify" and res:
                out += ", length %s" % (res[0].evaluate(),)
        except Exception as ex:
            out = "raised " + type(ex).__name__
        self.run.op("%s(%s,%s).%s(%s@%s) -> %s" % (nm, X.name(), Y.name(), meth, e.label, _pstr(path), out))
        return _Res("search-" + nm)

    def op_accessor(self):
        ch = self.ch
        e = self.pick_entry()
        path = self.pick_path(e.model, "node")
        n = self.real_at(e.root, path)
        sub = M.at(e.model, path)
        which = ch.draw(9, "work", "accessor")
        name_nt = ch.pick(NAMES, "work", "X")
        X = self.sym[M.NT(name_nt)]
        names = ["flatten", "find_all_trees", "find_direct_trees", "find_all_nodes", "get_path", "get_root", "get_choices_path", "descendants+iter", "__tree__"]
        nm = names[which]
        ok = True
        info = ""
        try:
            if which == 0:
                got = n.flatten()
                want = [self.real_at(n, p) for p in M.preorder_paths(sub)]
                ok = len(got) == len(want) and all(a is b for a, b in zip(got, want))
            elif which in (1, 2, 3):
                fn = [None, M.find_all_trees, M.find_direct_trees, M.find_all_nodes][which]
                got = getattr(n, nm)(X)
                want = [self.real_at(n, p) for p in fn(sub, name_nt)]
                ok = len(got) == len(want) and all(a is b for a, b in zip(got, want))
                info = " %s -> %d" % (name_nt, len(got))
            elif which == 4:
                got = n.get_path()
                want = [self.real_at(e.root, path[:k]) for k in range(len(path) + 1)]
                ok = len(got) == len(want) and all(a is b for a, b in zip(got, want))
            elif which == 5:
                ok = n.get_root() is e.root
            elif which == 6:
                got = n.get_choices_path()
                ok = tuple(s.index for s in got) == tuple(path) and all(type(s).__name__ == "ChildStep" for s in got)
            elif which == 7:
                got = n.descendants()
                ok = len(got) == M.size(sub) - 1 and [c for c in n] == list(n.children)
            else:
                t = n.__tree__()
                ok = len(t[1]) == len(sub[3])
        except Exception as ex:
            ok = False
            info = " raised " + type(ex).__name__
        self.run.op("%s(%s@%s)%s" % (nm, e.label, _pstr(path), info))
        if not ok:
            self.report("C10", "accessor", "accessor-result:" + nm, "accessor", "%s@%s: %s%s does not match the tree structure" % (e.label, _pstr(path), nm, info), e)
        return _Res("accessor-" + nm)

    # ---- values ------------------------------------------------------------------------------------
    def do_conv(self, n, conv):
        try:
            if conv == "str":
                v = str(n)
            elif conv == "bytes":
                v = bytes(n)
            elif conv == "int":
                v = int(n)
            elif conv == "value":
                tv = n.value()
                v = (tv.type_.name, tv._value, tuple(tv._trailing_bits))
            else:
                v = getattr(n, conv)()
            return ("ok", v)
        except Exception as ex:
            return ("err", type(ex).__name__)

    def judge_conv(self, sub_model, frozen_sub, conv, got, where, entry=None):
        """Compare one conversion outcome with the fold and with every earlier answer."""
        run = self.run
        want = M.views(sub_model)[conv]
        f = M.fold(sub_model)
        if f["error"]:
            run.probe("misaligned_conversion")
        elif f["aligned"] and f["kind"] in ("bytes", "bits"):
            run.probe("aligned_binary_conversion")
        span = M.bits_span_siblings(sub_model)
        if span:
            run.probe("bits_span_siblings")
        if want is not None and got != want:
            grp = {"to_string": "str", "to_bytes": "bytes"}.get(conv, conv)
            if got[0] == "err" and want[0] == "ok":
                # value() itself failed: the same for every view, so the view is not part of the name
                sig = "fold-raises:%s:aligned-%s-tree" % (got[1], f["kind"]) + (":bits-span-siblings" if span else "")
            elif got[0] == "ok" and want[0] == "err":
                sig = "fold-accepts-misaligned-leaf:%s" % grp
            else:
                sig = "fold-differs:%s:%s-tree" % (grp, f["kind"])
            if grp == "str" and _text_then_bits(sub_model) and sig.endswith(":bits-span-siblings"):
                sig = sig[: -len(":bits-span-siblings")]  # a property of the tree shape, not the cause
            if grp == "str" and _text_then_bits(sub_model):
                # established cause: TreeValue.to_string flushes pending bits by encoding the text part with
                # the bytes->str encoding (Latin-1) instead of UTF-8 ("same encoding in both directions")
                sig += ":text-then-bits:latin1-flush"
            self.report("C09", "value-fold", sig, "", "%s of %s (%s)\n gives %r\n the fold of the leaves gives %r" % (conv, M.show(sub_model), where, got, want), entry)
        if conv == "value" and got[0] == "ok":
            t = M.value_type(sub_model)
            if t is not None and got[1][0] != t:
                self.report("C09", "value-fold", "value-type-differs:%s-tree" % f["kind"], "", "value() of %s has type %s, leaves say %s" % (M.show(sub_model), got[1][0], t), entry)
        key = (frozen_sub, conv)
        old = self.memo.get(key)
        if old is None:
            self.memo[key] = got
            self.records.append(key)
        elif old != got:
            self.report("C09", "value-history", "conversion-unstable:%s" % conv, "", "%s of %s (%s)\n gave %r earlier in this run\n gives %r now" % (conv, M.show(sub_model), where, old, got), entry)

    def op_convert(self):
        ch = self.ch
        e = self.pick_entry()
        path = () if ch.draw(2, "work", "conv-root") == 0 else self.pick_path(e.model, "node")
        n = self.real_at(e.root, path)
        sub = M.at(e.model, path)
        conv = M.CONVS[ch.draw(len(M.CONVS), "work", "conv")]
        got = self.do_conv(n, conv)
        e.observed = True
        self.any_observed = True
        if M.is_t(sub):
            self.run.probe("conversion_on_shared_terminal")
        shown = got if got[0] == "err" or conv != "value" else ("ok", got[1][0])
        self.run.op("%s(%s@%s) -> %r" % (conv, e.label, _pstr(path), shown))
        if not e.tainted:
            self.judge_conv(sub, M.freeze(sub), conv, got, "%s@%s" % (e.label, _pstr(path)), e)
        return _Res("conv-" + conv)

    def recheck(self, op):
        """(b) repeat an earlier conversion on a tree of the same structure built over the
        same shared Terminal objects; the answer must be the one recorded earlier."""
        if not self.records:
            return
        key = self.records[self.ch.draw(len(self.records), "work", "recheck")]
        frozen_sub, conv = key
        try:
            t = self.build(frozen_sub)
        except KeyError:
            return
        got = self.do_conv(t, conv)
        self.run.probe("recheck_earlier_conversion")
        if got != self.memo[key]:
            self.report("C09", "value-history", "conversion-unstable:%s" % conv, "", "%s of %s\n gave %r earlier in this run\n gives %r after %s" % (conv, M.show(M.thaw(frozen_sub)), self.memo[key], got, op))
        if self._palette_changed():
            snap = self._palette_snapshot()
            diff = [(a, b) for a, b in zip(self.pal_snap, snap) if a != b]
            self.report("C09", "shared-value-mutated", "value-changed:shared-terminal", "conv-" + conv, "palette TreeValue changed by a repeated conversion (was, now): %r" % (diff[:3],))
            self._palette_restore()

    def op_eq(self):
        ch = self.ch
        e1 = self.pick_entry("tree")
        e2 = self.pick_entry("tree2")
        roots = ch.draw(3, "work", "eq-roots") != 2
        p1 = () if roots else self.pick_path(e1.model, "node")
        p2 = () if roots else self.pick_path(e2.model, "node2")
        a, b = self.real_at(e1.root, p1), self.real_at(e2.root, p2)
        e1.observed = e2.observed = True
        self.any_observed = True
        self.run.op("%s@%s == %s@%s" % (e1.label, _pstr(p1), e2.label, _pstr(p2)))
        if not (e1.tainted or e2.tainted):
            self._check_eq(a, b, M.freeze(M.at(e1.model, p1)), M.freeze(M.at(e2.model, p2)), "%s@%s vs %s@%s" % (e1.label, _pstr(p1), e2.label, _pstr(p2)))
        return _Res("eq")

    # ------------------------------------------------------------------------------------
    def step(self, first: bool):
        ch = self.ch
        run = self.run
        if first or not self.pool:
            k = 1
        else:
            k = ch.weighted(WEIGHTS, "sched", "op")
        name = OPS[k]
        pre_ids = set()
        for e in self.pool:
            for n in e.nodes:
                pre_ids.add(id(n))
        try:
            res = self._dispatch(name)
        except Exception:
            # the simulator's own bookkeeping may only fail when the shared symbols were corrupted
            if not self._palette_changed():
                raise
            snap = self._palette_snapshot()
            diff = [(a, b) for a, b in zip(self.pal_snap, snap) if a != b]
            self.report("C09", "shared-value-mutated", "value-changed:shared-terminal", "", "palette TreeValue changed (was, now): %r; noticed when %s failed" % (diff[:3], name))
            self._palette_restore()
            for e in self.pool:
                self._rebuild(e, self.scan(e.root)[0])
            res = _Res("skip")
        self.n_ops += 1
        self.verify(res, pre_ids)
        self.recheck(res.op)
        tgt = self.pool[0] if self.pool else None
        smax = max((len(e.nodes) for e in self.pool), default=0)
        ntot = sum(len(e.nodes) for e in self.pool)
        run.state((res.op, len(self.pool), min(smax // 8, 6), min(ntot // 24, 6), bool(tgt and tgt.observed)))

    def _dispatch(self, name):
        if name == "construct":
            res = self.op_construct()
        elif name == "observe":
            res = self.op_observe()
        elif name == "add_child":
            res = self.op_add_child()
        elif name == "set_children":
            res = self.op_set_children()
        elif name == "set_symbol":
            res = self.op_set_symbol()
        elif name == "set_party":
            res = self.op_set_party()
        elif name == "append":
            res = self.op_append()
        elif name == "deepcopy":
            res = self.op_deepcopy()
        elif name == "split_end":
            res = self.op_split(False)
        elif name == "prefix":
            res = self.op_split(True)
        elif name == "replace":
            res = self.op_replace(False)
        elif name == "replace_multiple":
            res = self.op_replace(True)
        elif name == "getitem":
            res = self.op_getitem()
        elif name == "search":
            res = self.op_search()
        elif name == "accessor":
            res = self.op_accessor()
        elif name == "convert":
            res = self.op_convert()
        else:
            res = self.op_eq()
        return res


def _normalise(fr):
    """Frozen model with text leaves replaced by their (Latin-1) buffer bytes: two trees that
    differ only in text-vs-bytes leaves of the same buffer normalise to the same value."""
    s = fr[0]
    if s[0] == "T" and isinstance(s[1], str):
        try:
            s = ("T", s[1].encode("latin-1"))
        except UnicodeEncodeError:
            pass
    return (s, fr[1], fr[2], tuple(_normalise(c) for c in fr[3]))


def run(run: Run) -> None:
    sim = _Sim(run)
    max_ops = int(run.cfg.get("max_ops", 40))
    n_ops = run.ch.rng_range(5, max(5, max_ops), "sched", "nops")
    for i in range(n_ops):
        sim.step(first=(i == 0))
    run.steps = sim.n_ops
    run.nontrivial = sim.n_ops >= 5 and sim.n_mut_after_obs >= 1
    run.info = {"ops": sim.n_ops, "pool": len(sim.pool), "mut_after_observation": sim.n_mut_after_obs, "conversions": len(sim.records), "nodes": sum(len(e.nodes) for e in sim.pool)}
