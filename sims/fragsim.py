"""FragSim (C13): the input stream cut into fragments by the scheduler.

System under simulation (real code): IterativeParser.new_parse / consume / can_continue /
collapse and the terminals' incremental ``check``.  The *schedule* is the composition of the
input into consecutive non-empty fragments, the consumption style per fragment
(``list(consume(f))`` or ``next(consume(f))`` then abandoning the generator, as
io/packetparser.py does) and whether ``can_continue()`` is interrogated after a fragment.

Oracles
  * the set of complete parses (structural keys of collapsed trees) available after the last
    fragment equals that of a fresh parser fed the whole input at once;
  * ``can_continue()`` is never False while the consumed prefix is a proper prefix of a word
    the harness itself derived from the grammar AST.
"""

from __future__ import annotations

import random
import re

from gen import grammar as G
from oracles import deriv
from simfw.run import Run
from sims.common import alphabet_of, cached_spec, mutate_word

NAME = "fragsim"

META = {
    "rule": "one run = one (grammar, input, composition into fragments, consumption styles) tuple; non-trivial = >=2 fragments and the reference parse of the whole input found >=1 tree or the input is a near-miss; distinct = distinct event-log digests",
    "state_measure": "(grammar text hash, input class, number of fragments, cut kinds hit: inside-literal / inside-regex / inside-utf8 / byte-in-bits)",
    "components": {
        "real": ["IterativeParser (new_parse, consume, can_continue, collapse)", "Terminal.check incremental matching", "Column/ParseState", "spec front end (python ANTLR parser, convert.py)"],
        "stub": ["the byte stream source (fragments drawn from the decision stream)"],
    },
    "expected_probes": ["cut_inside_literal", "cut_inside_regex", "next_style_consume", "can_continue_checked", "near_miss_input", "ambiguous_input"],
    "bounds": {"input_symbols": "<= ~24", "fragments": "1..len(input)", "rules": "2..5"},
    "assumptions": ["reference = fresh IterativeParser fed the whole input (parser soundness itself is C04, not claimed)"],
}


def _parse_all(parser, pieces, styles, run: Run, probe_cc, word_is_prefix_of_language_word, total_len):
    """Feed pieces; returns (set of model keys of complete parses after last piece, can_continue log)."""
    from fandango.language.grammar import ParsingMode

    consumed = 0
    results = []
    cc_false_at = None
    for idx, piece in enumerate(pieces):
        last = idx == len(pieces) - 1
        gen = parser.consume(piece)
        if last or styles[idx] == 0:
            out = list(gen)
        else:
            first = next(gen, None)
            out = [first] if first is not None else []
            gen.close()
            run.probe("next_style_consume")
        consumed += len(piece)
        if last:
            results = out
        if probe_cc[idx]:
            run.probe("can_continue_checked")
            cc = parser.can_continue()
            run.event("cc", idx, cc)
            if not cc and cc_false_at is None:
                cc_false_at = consumed
    keys = set()
    for tree, complete in results:
        if not complete:
            continue
        c = parser.collapse(tree)
        keys.add(deriv.to_model(c))
    return keys, cc_false_at


def run(run: Run) -> None:
    from fandango.language.grammar import ParsingMode
    from fandango.language.grammar.parser.iterative_parser import IterativeParser

    ch, cfg = run.ch, run.cfg
    gcfg = dict(cfg.get("grammar", {}))
    gcfg["ambiguous_regex"] = bool(cfg.get("ambiguous_regex_rate", 0) and ch.coin(cfg["ambiguous_regex_rate"], "spec", "ambig"))
    gcfg["utf8"] = True
    g = G.gen_grammar(ch, gcfg)
    text = g.to_fan()
    run.event("spec", text)
    spec = cached_spec(text)
    rules = spec.grammar.rules
    random.seed(ch.product_seed())

    # ---- the input -----------------------------------------------------------
    starts = [n for n in g.rules if n != "bit"]
    start = "start" if not ch.coin(0.2, "work", "otherstart") else ch.pick(starts, "work", "start")
    budget = ch.rng_range(4, 25, "work", "budget")
    for _attempt in range(4):
        model = G.sample(g, ch, start, budget=budget)
        word = G.word_of(model, g.mode)
        if len(word) <= int(cfg.get("max_input", 28)):
            break
        budget = max(0, budget // 3)
    else:
        run.op("input too long (%d symbols), skipped" % len(word))
        run.probe("skipped_long_input")
        return
    empties = g.meta.get("last_sample_empties", 0)
    kind = ch.weighted([6, 2, 2], "work", "inputkind")
    in_language_prefix_len = len(word)  # every proper prefix of `word` is extendable
    if kind == 1 and len(word) > 0:
        word2 = mutate_word(ch, word, alphabet_of(g))
        # the common prefix with the original word is still known to be extendable
        p = 0
        while p < min(len(word), len(word2)) and word[p] == word2[p]:
            p += 1
        in_language_prefix_len = p if word2 != word else len(word)
        known_full = word
        word = word2
        run.probe("near_miss_input")
    elif kind == 2 and len(word) > 1:
        cut = 1 + ch.draw(len(word) - 1, "work", "prefixcut")
        known_full = word
        word = word[:cut]
        in_language_prefix_len = cut
        run.probe("proper_prefix_input")
    else:
        known_full = word
    if len(word) == 0:
        run.op("empty input")
        return
    n = len(word)
    run.op("grammar(%s) start=<%s> input=%r" % (g.mode, start, word))

    # ---- the schedule: composition into fragments -----------------------------
    style = ch.weighted([3, 3, 2, 2], "sched", "cutstyle")
    if style == 0:
        cuts = [i for i in range(1, n) if ch.draw(2, "sched", "cut")]
    elif style == 1:
        cuts = list(range(1, n))  # one symbol at a time (what protocol mode does)
    elif style == 2:
        cuts = sorted({1 + ch.draw(n - 1, "sched", "cutpos") for _ in range(min(2, n - 1))}) if n > 1 else []
    else:
        cuts = [i for i in range(1, n) if ch.coin(0.2, "sched", "cutsparse")]
    bounds = [0] + cuts + [n]
    pieces = [word[a:b] for a, b in zip(bounds, bounds[1:])]
    styles = [ch.draw(2, "sched", "style") for _ in pieces]
    probe_cc = [ch.draw(2, "sched", "cc") for _ in pieces]
    run.op("cuts=%s styles=%s can_continue_at=%s" % (cuts, styles, [i for i, c in enumerate(probe_cc) if c]))
    # classify cut positions against the derivation the harness knows (only for in-language words)
    if word == known_full:
        pos = 0
        spans = []
        for leaf in G.leaves(model):
            ln = 1 if isinstance(leaf, int) else len(leaf.encode("utf-8") if (isinstance(leaf, str) and g.mode != "text") else leaf)
            spans.append((pos, pos + ln, leaf))
            pos += ln
        if g.mode == "text":
            for c in cuts:
                for a, b, leaf in spans:
                    if a < c < b:
                        run.probe("cut_inside_regex" if not any(leaf == x for x in _lits(g)) else "cut_inside_literal")
        else:
            run.probe("byte_stream_cut", len(cuts))
    if any(isinstance(c, str) and ord(c) > 127 for c in (word if isinstance(word, str) else "")):
        run.probe("non_ascii_input")

    # ---- reference: fresh parser, whole input ---------------------------------
    ref = IterativeParser(rules)
    ref.new_parse("<%s>" % start, ParsingMode.COMPLETE)
    ref_keys = set()
    for tree, complete in ref.consume(word):
        if complete:
            ref_keys.add(deriv.to_model(ref.collapse(tree)))
    if len(ref_keys) > 1:
        run.probe("ambiguous_input")
    run.event("ref", len(ref_keys))

    # ---- system under test: fragmented feeding ---------------------------------
    p = IterativeParser(rules)
    p.new_parse("<%s>" % start, ParsingMode.COMPLETE)
    got, cc_false_at = _parse_all(p, pieces, styles, run, probe_cc, None, n)
    run.event("frag", len(got))
    run.steps += len(pieces)
    run.nontrivial = len(pieces) >= 2 and (len(ref_keys) > 0 or kind == 1)
    run.state((hash(text) & 0xFFFF, kind, min(len(pieces), 6), g.mode, len(ref_keys) > 1))
    run.info = {"mode": g.mode, "fragments": len(pieces), "ref_trees": len(ref_keys), "input_kind": ["in-language", "near-miss", "proper-prefix"][kind]}

    # ---- oracle 1: same complete parses ---------------------------------------
    if got != ref_keys:
        extra = got - ref_keys
        missing = ref_keys - got
        sig = None
        detail = "input=%r cuts=%s styles=%s\nwhole-input parses: %d, fragmented parses: %d\n" % (word, cuts, styles, len(ref_keys), len(got))
        allm = list(extra) + list(missing)
        bad = [m for m in allm if deriv.check_derivation(g, m, start) is not None or _model_word(m, g.mode) != word]
        if bad:
            sig = "invalid-tree:" + ("fragmented" if bad[0] in extra else "whole")
            detail += "a yielded tree is not a derivation of the input: %s" % (bad[0],)
        elif any(_has_nongreedy_regex_leaf(g, m, word) for m in allm):
            # all differing trees are valid parses and one of them ends a regex terminal before its
            # longest match: the scanner only ever tries one end per regex terminal
            sig = ("fragmented-superset" if not missing else "fragmented-differs") + ":regex-multi-end"
            detail += "valid parses differ in where a regex terminal ends: extra=%s missing=%s" % (list(extra)[:1], list(missing)[:1])
        elif extra and not missing:
            sig = "fragmented-superset:other"
            detail += "whole-input parsing misses valid parse %s" % (next(iter(extra)),)
        elif missing and not extra:
            sig = "fragmented-misses-parse"
            detail += "fragmented feeding misses %s" % (next(iter(missing)),)
        else:
            sig = "fragmented-differs"
            detail += "extra=%s missing=%s" % (list(extra)[:1], list(missing)[:1])
        detail += "\nspec:\n" + text
        run.violation("C13", "parse-set-differs", sig, detail)

    # ---- oracle 2: can_continue on extendable prefixes -------------------------
    if cc_false_at is not None and cc_false_at < len(known_full) and cc_false_at <= in_language_prefix_len and known_full[:cc_false_at] == word[:cc_false_at]:
        # the consumed prefix is a proper prefix of known_full, a word the harness derived from the AST
        full = IterativeParser(rules)
        full.new_parse("<%s>" % start, ParsingMode.COMPLETE)
        parseable = any(c for _t, c in full.consume(known_full))
        if parseable:
            sig = "can-continue-false:extendable-prefix"
        elif any(isinstance(v, (str, bytes)) and len(v) == 0 for v in G.leaves(model)):
            # Fandango's scanner never matches a regex terminal against the empty string, so the
            # word is outside the language *the parser implements* (completeness, C05): a distinct cause
            sig = "can-continue-false:word-unparseable:empty-regex-match"
        elif _has_nongreedy_regex_leaf(g, deriv_model(model), known_full):
            # same root cause as fragmented-superset:regex-multi-end (only the greedy regex match is tried)
            sig = "can-continue-false:word-unparseable:regex-multi-end"
        elif empties > 0:
            # the harness's derivation uses an empty expansion of a nullable construct and the
            # whole-input parser rejects the word: Earley completion of nullable symbols is incomplete
            sig = "can-continue-false:word-unparseable:nullable-expansion"
        else:
            sig = "can-continue-false:word-unparseable:other"
        run.violation(
            "C13",
            "can-continue-false-on-extendable-prefix",
            sig,
            "after consuming %r (cuts=%s styles=%s) can_continue() is False although %r is a word of the grammar (whole-input parse of that word succeeds: %s)\nspec:\n%s" % (word[:cc_false_at], cuts, styles, known_full, parseable, text),
        )


def deriv_model(model):
    return model


def _lits(g):
    out = []

    def walk(n):
        if n[0] == "lit":
            out.append(n[1])
        elif n[0] in ("cat", "alt"):
            for x in n[1]:
                walk(x)
        elif n[0] in ("star", "plus", "opt", "rep", "crep"):
            walk(n[1])

    for r in g.rules.values():
        walk(r)
    return out


def _model_word(m, mode):
    try:
        return G.word_of(m, mode)
    except Exception:
        return None


def _has_nongreedy_regex_leaf(g, model, word) -> bool:
    """True if some leaf of ``model`` matched by a regex terminal is shorter than the longest
    match of one of the grammar's regexes at the same input position."""
    rxs = []

    def walk(n):
        if n[0] == "rx":
            rxs.append(n[1])
        elif n[0] in ("cat", "alt"):
            for x in n[1]:
                walk(x)
        elif n[0] in ("star", "plus", "opt", "rep", "crep"):
            walk(n[1])

    for r in g.rules.values():
        walk(r)
    pos = 0
    for leaf in deriv.model_leaves(model):
        if isinstance(leaf, int):
            continue
        data = leaf
        if isinstance(word, bytes) and isinstance(leaf, str):
            data = leaf.encode("utf-8")
        for rx in rxs:
            if type(rx) is not type(data):
                continue
            if re.fullmatch(rx, data, re.DOTALL):
                m = re.match(rx, word[pos:], re.DOTALL)
                if m and len(m.group(0)) > len(data):
                    return True
        pos += len(data)
    return False
