"""IsolationSim (C18): activity on other spec objects before B is used.

A run forks two children from the (pre-warmed) worker:
  reference child: resets the known process globals, builds B, produces B's solution
                   sequence and parse results under fixed seeds;
  test child:      same, but first performs a scheduler-chosen *history* on other spec
                   objects: create A (plain or IO-mode), fuzz A with a stagnating constraint so
                   the adaptive tuner moves its limits, parse with A, abandon A's generators
                   half-way, create further specs, create B before or after all that.
B's outputs must match.  On a mismatch the leak channel is localised: the test child is re-run
with one process-global observable restored at a time; the signature names the channel whose
restoration removes the difference (or ``unlocalised``).
"""

from __future__ import annotations

import os
import pickle
import random
import struct

from gen import grammar as G
from gen import proto as P
from gen import searchspec as S
from oracles import deriv
from simfw import boot
from simfw.choices import Choices
from simfw.run import Run, norm
from sims.common import fresh_spec, in_child as _in_child, prewarm

NAME = "isolationsim"

META = {
    "rule": "one run = (spec B, spec(s) A, history on A, position of B's creation); B's solution sequence and parse results with and without the history are compared (two forked children); non-trivial = the history fuzzed or parsed with at least one other spec object and B emitted >=1 solution; distinct = distinct event-log digests",
    "state_measure": "(history op kinds, whether A is IO-mode, whether B was created before the history, MAX_REPETITIONS class after the history)",
    "components": {"real": ["everything of Fandango used by Fandango(...), fuzz(), parse() in both children"], "stub": ["none (process boundary = os.fork of the warmed worker)"]},
    "expected_probes": ["history_fuzzed_A", "history_parsed_with_A", "history_abandoned_generator", "history_created_io_spec", "b_created_before_history", "tuner_raised_max_repetitions", "b_emitted_solutions", "outputs_compared"],
    "bounds": {"history_ops": "1..6", "generations_on_A": "<= 12", "solutions_of_B": "<= 6"},
    "assumptions": ["both children start from the same worker state with the known process globals reset; only the history differs"],
}

OBSERVABLES = ["nodes.MAX_REPETITIONS", "logger.level", "io.env_key"]


def _use_b(bf, b_seed, n_sol, gens, pop, words):
    """The fixed workload on B."""
    import fandango.language.grammar.nodes as nodes

    random.seed(b_seed)
    sols = bf.fuzz(desired_solutions=n_sol, max_generations=gens, population_size=pop, random_seed=b_seed, mutation_rate=0.8)
    out = {"solutions": [str(s) for s in sols], "parses": []}
    if words is None:
        # round trip of its own outputs plus a near miss (equal in both children iff the solutions are)
        words = out["solutions"][:2] + [s[:-1] for s in out["solutions"][:1] if len(s) > 1]
    for w in words:
        try:
            trees = []
            for t in bf.parse(w):
                trees.append(deriv.to_model(t))
                if len(trees) >= 5:
                    break
            out["parses"].append((w, trees))
        except Exception as e:
            out["parses"].append((w, "ERR " + type(e).__name__))
    out["max_rep_after"] = nodes.MAX_REPETITIONS
    return out


def _observe():
    import logging

    import fandango.io as fio
    import fandango.language.grammar.nodes as nodes

    return {"nodes.MAX_REPETITIONS": nodes.MAX_REPETITIONS, "logger.level": logging.getLogger("fandango").level, "io.instances": len(fio.FandangoIO._instances)}


def _restore(name, snapshot):
    import logging

    import fandango.language.grammar.nodes as nodes

    if name == "nodes.MAX_REPETITIONS":
        nodes.MAX_REPETITIONS = snapshot["nodes.MAX_REPETITIONS"]
    elif name == "logger.level":
        logging.getLogger("fandango").setLevel(snapshot["logger.level"])


def _history(ops, a_texts, io_text, b_text, b_first, restore=None):
    """Executed in the test child.  Returns (B spec object, log, observables)."""
    import fandango.language.grammar.nodes as nodes

    log = []
    pristine = _observe()
    bf = fresh_spec(b_text) if b_first else None
    specs = {}
    gens_open = []

    def get(i):
        if i not in specs:
            specs[i] = fresh_spec(a_texts[i % len(a_texts)])
        return specs[i]

    for op in ops:
        kind = op[0]
        try:
            if kind == "create":
                get(op[1])
            elif kind == "create_b_text":
                if op[1] == "lazy":
                    specs["bt"] = fresh_spec(b_text, lazy=True)
                elif op[1] == "start_symbol":
                    specs["bt"] = fresh_spec(b_text, start_symbol="<fa>")
                else:
                    specs["bt"] = fresh_spec(b_text, use_cache=True)
            elif kind == "create_io":
                from simfw import bridge

                bridge.SIM = None
                specs["io"] = fresh_spec(io_text)
            elif kind == "fuzz":
                f = get(op[1])
                random.seed(op[2])
                kw = {} if op[6] is None else {"max_nodes": op[6]}
                if len(op) > 7 and op[7] is not None:
                    kw["max_repetitions"] = op[7]
                sols = f.fuzz(desired_solutions=op[3], max_generations=op[4], population_size=op[5], random_seed=op[2], **kw)
                log.append(("fuzz", len(sols), nodes.MAX_REPETITIONS))
            elif kind == "parse":
                f = get(op[1])
                n = 0
                for _t in f.parse(op[2]):
                    n += 1
                    if n >= 3:
                        break
                log.append(("parse", n))
            elif kind == "abandon":
                f = get(op[1])
                random.seed(op[2])
                f.init_population(population_size=op[4])
                g = f.generate_solutions(max_generations=op[3])
                for _ in range(op[5]):
                    if next(g, None) is None:
                        break
                gens_open.append(g)  # left suspended, never closed by the caller
                log.append(("abandon", nodes.MAX_REPETITIONS))
        except Exception as e:
            log.append(("raised", kind, type(e).__name__, norm(str(e))[:80]))
    obs = _observe()
    if restore:
        _restore(restore, pristine)
    if bf is None:
        bf = fresh_spec(b_text)
    return bf, log, obs


def run(run: Run) -> None:
    ch, cfg = run.ch, run.cfg
    # ---- specs ------------------------------------------------------------------------
    b = S.gen_searchspec(ch, dict(cfg.get("spec", {}), raising_rate=0.0, generators=False, max_h=4, max_r=1, inexact_pair_rate=0.0, body_rules=2))
    b_text = b.to_fan()
    n_a = ch.rng_range(1, 2, "spec", "n_a")
    shadowing = False
    a_texts = []
    for i in range(n_a):
        a = S.gen_searchspec(ch, dict(cfg.get("spec", {}), raising_rate=0.0, generators=False, max_h=2, max_r=1, inexact_pair_rate=0.0, body_rules=2))
        if ch.coin(0.7, "spec", "stagnate"):
            a.constraints.append("where int(<fa>) > 5000")  # unsatisfiable: the search stagnates, the tuner adapts
        if ch.coin(0.4, "spec", "a-shadows-builtin"):
            # A's own Python part redefines a name that B only knows as a builtin
            a.py_prelude = list(getattr(a, "py_prelude", [])) + [ch.pick(["def int(x=0, *a):\n    return 7", "def str(x=''):\n    return 'zz'", "def len(x):\n    return 1", "def all(xs):\n    return False"], "spec", "a-shadow")]
            shadowing = True
        a_texts.append(a.to_fan())
    io = P.gen_protocol(Choices(ch.seed + 17, ch.spec_seed + 17), {})
    io_text = io.to_fan()
    run.event("specs", b_text, a_texts)
    if shadowing:
        run.probe("history_spec_shadows_builtin")
    for t_ in [b_text, io_text] + a_texts:
        prewarm(t_)
    # ---- B's fixed workload ---------------------------------------------------------------
    b_seed = 1 + ch.draw(1000, "work", "b-seed")
    n_sol = ch.rng_range(4, 8, "work", "n-sol")
    gens = ch.pick([8, 4, 12], "work", "b-gens")
    pop = ch.pick([12, 6, 16], "work", "b-pop")
    words = []
    # ---- the history on A -------------------------------------------------------------------
    ops = []
    n_ops = ch.rng_range(1, 6, "sched", "n-ops")
    for _ in range(n_ops):
        k = ch.weighted([2, 5, 2, 3, 1, 3], "sched", "hist-op")
        i = ch.draw(n_a, "sched", "which-a")
        if k == 0:
            ops.append(("create", i))
        elif k == 1:
            ops.append(("fuzz", i, 1 + ch.draw(1000, "sched", "a-seed"), ch.rng_range(1, 4, "sched", "a-n"), ch.pick([6, 2, 12], "sched", "a-gens"), ch.pick([6, 3, 12], "sched", "a-pop"), ch.pick([None, 8, 20, 300], "sched", "a-max-nodes"), ch.pick([None, None, None, 2, 5, 40], "sched", "a-max-repetitions")))
        elif k == 2:
            ops.append(("parse", i, "12:3:ab:|" + ch.pick(["", "x", "1=a;"], "sched", "a-word")))
        elif k == 3:
            ops.append(("abandon", i, 1 + ch.draw(1000, "sched", "a-seed"), ch.pick([6, 3, 10], "sched", "a-gens"), ch.pick([6, 3], "sched", "a-pop"), ch.rng_range(0, 2, "sched", "a-take")))
            run.fault("abandoned_generator")
        elif k == 4:
            ops.append(("create_io",))
        else:
            # another instance built from B's very text, but with other options
            ops.append(("create_b_text", ch.pick(["lazy", "lazy", "start_symbol", "stdlib-off-cache-on"], "sched", "b-text-option")))
    b_first = bool(ch.draw(2, "sched", "b-first"))
    for o in ops:
        run.probe({"create_b_text": "history_created_same_text_other_options", "create": "history_created_spec", "create_io": "history_created_io_spec", "fuzz": "history_fuzzed_A", "parse": "history_parsed_with_A", "abandon": "history_abandoned_generator"}[o[0]])
    if b_first:
        run.probe("b_created_before_history")
    run.op("B: workload seed=%d n=%d gens=%d pop=%d; B created %s the history" % (b_seed, n_sol, gens, pop, "before" if b_first else "after"))
    for o in ops:
        run.op("history: %s" % (o,))

    def reference2():
        boot.reset_process_globals()
        bf = fresh_spec(b_text)
        return _use_b(bf, b_seed, n_sol, gens, pop, None)

    def test(restore=None):
        boot.reset_process_globals()
        bf, log, obs = _history(ops, a_texts, io_text, b_text, b_first, restore=restore)
        out = _use_b(bf, b_seed, n_sol, gens, pop, None)
        out["log"] = log
        out["obs"] = obs
        return out

    ref = _in_child(reference2)
    tst = _in_child(lambda: test())
    if ref[0] != "ok" or tst[0] != "ok":
        run.op("child failed: ref=%s test=%s" % (ref[0], (tst[1] if tst[0] != "ok" else "ok")[:300]))
        run.event("child-failed", ref[0], tst[0])
        if any(r_[0] != "ok" and ("child-timeout" in str(r_[1]) or "child died" in str(r_[1])) for r_ in (ref, tst)):
            # wall-clock limits of the harness are never a verdict about the product
            from simfw.run import StepCap

            raise StepCap("child-timeout")
        if tst[0] != "ok" and ref[0] == "ok":
            run.violation("C18", "history-breaks-instance", "b-fails-after-history", "using B after the history failed: %s\nhistory=%s" % (tst[1][:600], ops))
        return
    ref, tst = ref[1], tst[1]
    run.probe("outputs_compared")
    if ref["solutions"]:
        run.probe("b_emitted_solutions")
    if tst["obs"]["nodes.MAX_REPETITIONS"] != 20:
        run.probe("tuner_raised_max_repetitions")
    run.event("ref", ref["solutions"], ref["parses"])
    run.event("tst", tst["solutions"], tst["parses"], tst["log"], sorted(tst["obs"].items()))
    run.steps = len(ops)
    run.state((tuple(sorted({o[0] for o in ops})), b_first, min(tst["obs"]["nodes.MAX_REPETITIONS"], 100) // 20))
    run.nontrivial = any(o[0] in ("fuzz", "parse", "abandon") for o in ops) and bool(ref["solutions"])
    run.info = {"ops": [o[0] for o in ops], "b_first": b_first, "obs": tst["obs"]}
    if ref["solutions"] != tst["solutions"] or ref["parses"] != tst["parses"]:
        what = "solutions" if ref["solutions"] != tst["solutions"] else "parse-results"
        channel = "unlocalised"
        for name in ("nodes.MAX_REPETITIONS", "logger.level"):
            alt = _in_child(lambda name=name: test(restore=name))
            if alt[0] == "ok" and alt[1]["solutions"] == ref["solutions"] and alt[1]["parses"] == ref["parses"]:
                channel = name
                if name == "nodes.MAX_REPETITIONS":
                    # which way the history moved the process-wide cap (20 when pristine)
                    v = tst["obs"]["nodes.MAX_REPETITIONS"]
                    channel += ":raised" if v > 20 else (":lowered" if v < 20 else ":restored-to-default")
                break
        run.violation(
            "C18",
            "instances-influence-each-other",
            "leak:%s:%s" % (channel, what),
            "B's %s differ after activity on other spec objects (channel established by restoring one observable at a time: %s)\nalone:        %s\nafter history: %s\nhistory=%s\nobservables after history=%s\nB:\n%s" % (what, channel, ref[what.split("-")[0] if what == "solutions" else "parses"], tst["solutions"] if what == "solutions" else tst["parses"], ops, tst["obs"], b_text),
        )
