"""Regenerates MANIFEST.json from simfw.registry + the static tables below (run by hand)."""
import json, os, sys
sys.path.insert(0, os.path.dirname(os.path.abspath(__file__)))
from simfw.registry import CHECKS, MANIFEST_TEXT, NOT_APPLICABLE

checks = []
for pid in sorted(CHECKS):
    t = MANIFEST_TEXT[pid]
    checks.append({
        "property_id": pid,
        "quick_cmd": "./check %s --tier quick" % pid,
        "thorough_cmd": "./check %s --tier thorough" % pid,
        "evidence_file": "/verif/evidence/%s.json" % pid,
        "replay_cmd_template": "./check %s --replay {path}" % pid,
        "engine": CHECKS[pid]["sim"],
        "level_claimed": {"category": "exploration", "text": t["level"], "design_ref": t["design_ref"]},
        "level_note": t["note"],
        "technique": t["technique"],
    })
claimed = set(CHECKS)
na = [{"property_id": p, "reason": r} for p, r in NOT_APPLICABLE.items() if p not in claimed]
engines = {}
for pid, c in CHECKS.items():
    engines.setdefault(c["sim"], []).append(pid)
doc = {
    "version": 1,
    "setup_cmd": "/venv/bin/python -B -c \"import sys; sys.path.insert(0,'/repo/src'); import fandango, hashlib; print('fandango from', fandango.__file__)\"",
    "hooks": {
        "guard": "FANDANGO_VERIF_SIM",
        "enable": "no source hooks: every seam is taken from the harness (time module patched before import, in-spec party classes, wrapped FandangoIO accessors, module attribute rebinding); checks import /repo/src directly",
        "baseline_off_cmd": "cd /repo && /venv/bin/python -m pytest -ra -q -p no:cacheprovider --timeout=900 --continue-on-collection-errors",
        "source_commits": [],
        "add_only": True,
    },
    "engines": [{"name": n, "path": "/verif/sims/%s.py" % n, "serves_properties": sorted(ps), "kind_free_text": "deterministic simulator driven by the seeded decision stream of /verif/simfw"} for n, ps in sorted(engines.items())],
    "checks": checks,
    "not_applicable": na,
    "notes": "All checks: ./check <id> [--tier quick|thorough]; honours VERIF_SEED, VERIF_TIER, VERIF_WORKERS, VERIF_REPO_SRC. Exit 0 held / 1 VIOLATION / 2 harness error. Known findings: /verif/known_findings.json.",
}
json.dump(doc, open(os.path.join(os.path.dirname(os.path.abspath(__file__)), "MANIFEST.json"), "w"), indent=1)
print("wrote MANIFEST.json with", len(checks), "checks,", len(na), "not applicable")
