"""Message-level reference automaton over the ProtoGen AST (imports nothing from Fandango).

A *configuration* is a tuple of AST nodes still to be matched, in order.  The state of the
automaton after a history is a set of configurations.  Message occurrences
("nt", type, sender, recipient) are the alphabet; state references are expanded lazily, so
right/centre recursion is fine (left recursion is excluded by the generator).
"""

from __future__ import annotations

END = ("$END",)


def _is_msg(node) -> bool:
    return node[0] == "nt" and len(node) > 2 and node[2] is not None


class MsgAutomaton:
    def __init__(self, rules: dict, start: str = "start", max_configs: int = 4000, invisible=None):
        self.rules = rules
        # occurrences the observer never sees (messages between two external parties are sliced
        # out of the grammar Fandango works with): treated as epsilon
        self.invisible = invisible or (lambda node: False)
        self.start = start
        self.max_configs = max_configs
        self._exp_memo: dict = {}

    # expansion of one configuration into {(msgkey | END, rest_config)}
    def _expand(self, config: tuple, depth: int = 0) -> frozenset:
        r = self._exp_memo.get(config)
        if r is not None:
            return r
        if depth > 200:
            return frozenset()
        self._exp_memo[config] = frozenset()  # cycle guard (nullable cycles yield nothing new)
        out: set = set()
        if not config:
            out.add((END, ()))
        else:
            head, rest = config[0], config[1:]
            k = head[0]
            if k == "nt":
                if _is_msg(head):
                    if self.invisible(head):
                        out |= self._expand(rest, depth + 1)
                    else:
                        out.add(((head[2], head[3] if len(head) > 3 else None, head[1]), rest))
                else:
                    out |= self._expand((self.rules[head[1]],) + rest, depth + 1)
            elif k == "cat":
                out |= self._expand(tuple(head[1]) + rest, depth + 1)
            elif k == "alt":
                for x in head[1]:
                    out |= self._expand((x,) + rest, depth + 1)
            elif k == "star":
                out |= self._expand(rest, depth + 1)
                out |= self._expand((head[1], head) + rest, depth + 1)
            elif k == "plus":
                out |= self._expand((head[1], ("star", head[1])) + rest, depth + 1)
            elif k == "opt":
                out |= self._expand(rest, depth + 1)
                out |= self._expand((head[1],) + rest, depth + 1)
            elif k == "rep":
                x, lo, hi = head[1], head[2], head[3]
                if lo > 0:
                    out |= self._expand((x, ("rep", x, lo - 1, None if hi is None else hi - 1)) + rest, depth + 1)
                else:
                    out |= self._expand(rest, depth + 1)
                    if hi is None:
                        out |= self._expand((x, head) + rest, depth + 1)
                    elif hi > 0:
                        out |= self._expand((x, ("rep", x, 0, hi - 1)) + rest, depth + 1)
            else:
                raise ValueError("unexpected node in state grammar: %r" % (head,))
        r = frozenset(out)
        self._exp_memo[config] = r
        return r

    def initial(self) -> frozenset:
        return frozenset([(("nt", self.start),)])

    def step(self, state: frozenset, msg: tuple) -> frozenset:
        """msg = (sender, recipient, type).  Empty result = history not viable."""
        out = set()
        for cfg in state:
            for key, rest in self._expand(cfg):
                if key == msg:
                    out.add(rest)
        if len(out) > self.max_configs:
            raise OverflowError("automaton state too large")
        return frozenset(out)

    def next_set(self, state: frozenset) -> set:
        out = set()
        for cfg in state:
            for key, _rest in self._expand(cfg):
                if key is not END:
                    out.add(key)
        return out

    def complete(self, state: frozenset) -> bool:
        return any(key is END for cfg in state for key, _r in self._expand(cfg))

    def run(self, history) -> tuple:
        """(viable, state) after a history of (sender, recipient, type)."""
        st = self.initial()
        for m in history:
            st = self.step(st, m)
            if not st:
                return False, st
        return True, st

    def can_finish(self, state: frozenset, limit: int = 12) -> bool:
        """Is some complete interaction reachable (productive grammars: always)."""
        return bool(state)
