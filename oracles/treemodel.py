"""Pure reference model of derivation trees for TreeSim (C09, C10).

Imports NOTHING from Fandango.  A model node is a mutable list

    [sym, sender, recipient, children]

with ``sym = ("N", "<name>")`` for a nonterminal and ``sym = ("T", value)`` for a terminal
leaf, ``value`` being ``str`` (text), ``bytes`` (binary) or ``int`` 0/1 (one bit).
``freeze`` turns a model into nested tuples (hashable, comparable in C); ``thaw`` is the
inverse.  Paths are tuples of child indices from the root.

Two groups of functions:

* structure: the documented effect of every mutating tree operation (add_child, set_children,
  setters, append, split_end, prefix, replace_multiple, deepcopy) and the selectors the
  accessors are compared with (preorder, find_all_trees order, ...);
* value: the left-to-right fold over the terminal leaves and the three views (bits / bytes /
  str) that property C09 states, with an explicit "unspecified" (None) answer wherever the
  property text does not pin the result down.
"""

from __future__ import annotations

from typing import Any, Iterable, Optional

SYM, SENDER, RECIPIENT, KIDS = 0, 1, 2, 3

CONV_ERROR = "FandangoConversionError"


# ----------------------------------------------------------------------------
# construction / conversion
# ----------------------------------------------------------------------------
def NT(name: str) -> tuple:
    return ("N", name)


def TM(value) -> tuple:
    return ("T", value)


def node(sym, children: Optional[Iterable[list]] = None, sender=None, recipient=None) -> list:
    return [sym, sender, recipient, list(children or [])]


def freeze(m) -> tuple:
    return (m[0], m[1], m[2], tuple([freeze(c) for c in m[3]]))


def thaw(f) -> list:
    return [f[0], f[1], f[2], [thaw(c) for c in f[3]]]


def clone(m) -> list:
    return [m[0], m[1], m[2], [clone(c) for c in m[3]]]


def is_nt(m) -> bool:
    return m[0][0] == "N"


def is_t(m) -> bool:
    return m[0][0] == "T"


def size(m) -> int:
    return 1 + sum(size(c) for c in m[3])


def depth(m) -> int:
    return 1 + max((depth(c) for c in m[3]), default=0)


def at(m, path):
    for i in path:
        m = m[3][i]
    return m


def preorder_paths(m, prefix=()) -> list:
    out = [prefix]
    for i, c in enumerate(m[3]):
        out.extend(preorder_paths(c, prefix + (i,)))
    return out


def path_of_index(m, idx: int):
    ps = preorder_paths(m)
    return ps[idx] if 0 <= idx < len(ps) else None


def show(m, limit: int = 160) -> str:
    """Compact, address-free rendering used in operation lists and details."""

    def r(n):
        s = n[0]
        if s[0] == "T":
            return repr(s[1])
        head = s[1]
        if n[1] is not None or n[2] is not None:
            head += "{%s>%s}" % (n[1], n[2])
        if not n[3]:
            return head
        return head + "(" + ",".join(r(c) for c in n[3]) + ")"

    t = r(m)
    return t if len(t) <= limit else t[: limit - 3] + "..."


# ----------------------------------------------------------------------------
# mutating operations (documented effect)
# ----------------------------------------------------------------------------
def add_child(root, path, sub) -> None:
    at(root, path)[3].append(sub)


def set_children(root, path, kids: list) -> None:
    at(root, path)[3] = list(kids)


def set_symbol(root, path, sym) -> None:
    at(root, path)[0] = sym


def set_sender(root, path, who) -> None:
    at(root, path)[1] = who


def set_recipient(root, path, who) -> None:
    at(root, path)[2] = who


def append_valid(root, path, hookin) -> bool:
    """Would ``append(hookin, tree)`` at ``path`` succeed?  A step (name, new) with new=False
    requires the current last child to be a nonterminal of that name."""
    cur = at(root, path)
    virtual = False  # inside a freshly created node: no children
    for name, new in hookin:
        if new:
            virtual = True
            continue
        if virtual or not cur[3] or cur[3][-1][0] != ("N", name):
            return False
        cur = cur[3][-1]
    return True


def append(root, path, hookin, sub) -> None:
    """Documented effect of a *valid* append: walk the last-child chain, creating a new
    node for every step flagged True, and add ``sub`` at the end."""
    cur = at(root, path)
    for name, new in hookin:
        if new:
            cur[3].append(node(NT(name)))
        cur = cur[3][-1]
    cur[3].append(sub)


def split_end(root, path) -> None:
    """Remove everything to the right of the path root -> node (in place)."""
    cur = root
    for i in path:
        cur[3] = cur[3][: i + 1]
        cur = cur[3][i]


def prefix(root, path):
    """split_end, then drop the node itself; returns the path of its parent."""
    assert len(path) > 0
    split_end(root, path)
    parent = at(root, path[:-1])
    parent[3] = parent[3][:-1]
    return path[:-1]


def replace_multiple(root, repl: list) -> list:
    """``repl`` = [(path, replacement model)], paths pairwise not prefixes of each other and
    symbols equal: a new tree in which each addressed subtree is a copy of its replacement."""
    table = {tuple(p): r for p, r in repl}

    def rec(n, cur):
        r = table.get(cur)
        if r is not None and r[0] == n[0]:
            return clone(r)
        return [n[0], n[1], n[2], [rec(c, cur + (i,)) for i, c in enumerate(n[3])]]

    return rec(root, ())


def deepcopy(root, path, copy_children: bool, copy_parent: bool):
    """Returns (model of the tree the copy lives in, path of the copy inside it)."""
    if copy_parent:
        new = clone(root)
        if not copy_children:
            at(new, path)[3] = []
        return new, tuple(path)
    sub = clone(at(root, path))
    if not copy_children:
        sub[3] = []
    return sub, ()


# ----------------------------------------------------------------------------
# selectors (paths, in the order the accessors are documented to return nodes)
# ----------------------------------------------------------------------------
def find_all_trees(m, name, prefix=()) -> list:
    """Post-order over nonterminal children: descendants first, the node itself last."""
    out = []
    for i, c in enumerate(m[3]):
        if c[0][0] == "N":
            out.extend(find_all_trees(c, name, prefix + (i,)))
    if m[0] == ("N", name):
        out.append(prefix)
    return out


def find_direct_trees(m, name, prefix=()) -> list:
    return [prefix + (i,) for i, c in enumerate(m[3]) if c[0] == ("N", name)]


def find_all_nodes(m, name, prefix=()) -> list:
    out = []
    if m[0][0] == "N":
        if m[0] == ("N", name):
            out.append(prefix)
        for i, c in enumerate(m[3]):
            out.extend(find_all_nodes(c, name, prefix + (i,)))
    return out


# ----------------------------------------------------------------------------
# values (C09)
# ----------------------------------------------------------------------------
def leaves(m, prefix=()) -> list:
    """[(value, path)] of the terminal leaves, left to right."""
    if m[0][0] == "T":
        return [(m[0][1], prefix)]
    out = []
    for i, c in enumerate(m[3]):
        out.extend(leaves(c, prefix + (i,)))
    return out


def _bits_to_bytes(bits: list) -> bytes:
    out = bytearray()
    for i in range(0, len(bits), 8):
        b = 0
        for x in bits[i : i + 8]:
            b = (b << 1) | x
        out.append(b)
    return bytes(out)


def _bytes_to_bits(data: bytes) -> str:
    return "".join(format(b, "08b") for b in data)


def fold(m) -> dict:
    """Left-to-right concatenation of the leaves.

    kind:  'empty' (no terminal leaf) | 'string' (text leaves only) | 'bits' (bit leaves only)
           | 'bytes' (anything else)
    error: a text/bytes leaf sits at a bit position that is not a multiple of eight
    data:  the bytes up to the last text/bytes leaf; tail: the bits after it
    """
    lv = leaves(m)
    data = bytearray()
    pending: list = []
    text: list = []
    n_str = n_bytes = n_bits = 0
    error = False
    for v, _p in lv:
        if isinstance(v, int) and not isinstance(v, bool):
            pending.append(v)
            n_bits += 1
            continue
        if len(pending) % 8 != 0:
            error = True
            break
        data += _bits_to_bytes(pending)
        pending = []
        if isinstance(v, str):
            n_str += 1
            text.append(v)
            data += v.encode("utf-8")
        else:
            n_bytes += 1
            data += v
    if not lv:
        kind = "empty"
    elif n_bytes == 0 and n_bits == 0:
        kind = "string"
    elif n_bytes == 0 and n_str == 0:
        kind = "bits"
    else:
        kind = "bytes"
    return {
        "kind": kind,
        "error": error,
        "data": bytes(data),
        "tail": tuple(pending),
        "text": "".join(text),
        "aligned": (not error) and len(pending) % 8 == 0,
    }


def bits_span_siblings(m) -> bool:
    """Is there a run of consecutive bit leaves whose members have different parents?"""
    prev_parent = None
    in_run = False
    for v, p in leaves(m):
        if isinstance(v, int) and not isinstance(v, bool):
            if in_run and p[:-1] != prev_parent:
                return True
            in_run = True
            prev_parent = p[:-1]
        else:
            in_run = False
    return False


# the conversions TreeSim requests, simplest first
CONVS = (
    "str",
    "bytes",
    "to_bits",
    "int",
    "to_string",
    "to_bytes",
    "value",
    "should_be_serialized_to_bytes",
    "contains_bits",
    "contains_bytes",
)

TYPE_OF_KIND = {"empty": "EMPTY", "string": "STRING", "bits": "TRAILING_BITS_ONLY", "bytes": "BYTES"}


def views(m) -> dict:
    """conv -> ("ok", value) | ("err", CONV_ERROR) | None (= the property does not pin it down).

    Pinned down:
      * mis-aligned text/bytes leaf: str / bytes / to_bits (and their to_* twins) raise the
        conversion error;
      * byte-aligned trees: bytes = the fold, bits = those bytes in groups of eight, str = the
        text (text-only trees) or the Latin-1 decoding of the bytes;
      * bit-only trees of any length: to_bits = the bits, int = their big-endian value;
      * contains_bits / contains_bytes / should_be_serialized_to_bytes: leaf census.
    Left open (None): trees whose trailing bits do not fill a byte (except the two bit-only
    answers above), int() of text or bytes, the TreeValue object returned by value().
    """
    f = fold(m)
    lv = [v for v, _ in leaves(m)]
    has_bits = any(isinstance(v, int) for v in lv)
    has_bytes = any(isinstance(v, bytes) for v in lv)
    out: dict = {c: None for c in CONVS}
    out["contains_bits"] = ("ok", has_bits)
    out["contains_bytes"] = ("ok", has_bytes)
    out["should_be_serialized_to_bytes"] = ("ok", has_bits or has_bytes)
    if f["error"]:
        e = ("err", CONV_ERROR)
        for c in ("str", "bytes", "to_bits", "to_string", "to_bytes"):
            out[c] = e
        return out
    if f["aligned"]:
        full = f["data"] + _bits_to_bytes(list(f["tail"]))
        out["bytes"] = out["to_bytes"] = ("ok", full)
        out["to_bits"] = ("ok", _bytes_to_bits(full))
        if f["kind"] == "string":
            s = f["text"]
        elif f["kind"] == "empty":
            s = ""
        else:
            s = full.decode("latin-1")
        out["str"] = out["to_string"] = ("ok", s)
    if f["kind"] == "bits":
        bits = "".join(str(b) for b in f["tail"])
        out["to_bits"] = ("ok", bits)
        out["int"] = ("ok", int(bits, 2))
    return out


def value_type(m) -> Optional[str]:
    """Name of the documented TreeValueType of the fold (None when the fold is an error)."""
    f = fold(m)
    if f["error"]:
        return None
    return TYPE_OF_KIND[f["kind"]]
