"""Pure reference model of derivation trees for TreeSim (C09, C10).

Imports NOTHING from Fandango.  A model node is a mutable list

    [sym, sender, recipient, children, read_only, sources]

with ``sym = ("N", "<name>")`` for a nonterminal and ``sym = ("T", value)`` for a terminal
leaf, ``value`` being ``str`` (text), ``bytes`` (binary) or ``int`` 0/1 (one bit).
``read_only`` is the node's flag, ``sources`` the list of generator-argument trees hanging off
the node (NOT part of size / hash / equality / value: those are functions of the first four
slots only, see ``core``).
``freeze`` turns a model into nested tuples (hashable, comparable in C); ``thaw`` is the
inverse.  Paths are tuples of steps from the root: a step ``i >= 0`` is child ``i``, a step
``i < 0`` is source ``-1 - i``.

Two groups of functions:

* structure: the documented effect of every mutating tree operation (add_child, set_children,
  setters, append, split_end, prefix, replace_multiple, deepcopy) and the selectors the
  accessors are compared with (preorder, find_all_trees order, ...);
* value: the left-to-right fold over the terminal leaves and the three views (bits / bytes /
  str) that property C09 states, with an explicit "unspecified" (None) answer wherever the
  property text does not pin the result down.
"""

from __future__ import annotations

from typing import Any, Iterable, Optional

SYM, SENDER, RECIPIENT, KIDS, RO, SRC = 0, 1, 2, 3, 4, 5

CONV_ERROR = "FandangoConversionError"


# ----------------------------------------------------------------------------
# construction / conversion
# ----------------------------------------------------------------------------
def NT(name: str) -> tuple:
    return ("N", name)


def TM(value) -> tuple:
    return ("T", value)


def node(sym, children: Optional[Iterable[list]] = None, sender=None, recipient=None, read_only=False, sources: Optional[Iterable[list]] = None) -> list:
    return [sym, sender, recipient, list(children or []), bool(read_only), list(sources or [])]


def freeze(m) -> tuple:
    return (m[0], m[1], m[2], tuple([freeze(c) for c in m[3]]), m[4], tuple([freeze(c) for c in m[5]]) if m[5] else ())


def thaw(f) -> list:
    if len(f) == 4:  # a core (see below): no flag, no sources
        return [f[0], f[1], f[2], [thaw(c) for c in f[3]], False, []]
    return [f[0], f[1], f[2], [thaw(c) for c in f[3]], f[4], [thaw(c) for c in f[5]]]


def clone(m) -> list:
    return [m[0], m[1], m[2], [clone(c) for c in m[3]], m[4], [clone(c) for c in m[5]]]


def core(f) -> tuple:
    """What size / hash / equality / the value are functions of: symbol, sender, recipient and the
    children (recursively).  Works on models and on frozen models; returns a frozen 4-tuple."""
    return (f[0], f[1], f[2], tuple([core(c) for c in f[3]]))


def has_sources(m) -> bool:
    """Is there a node with a non-empty sources list anywhere (below children or sources)?"""
    if m[5]:
        return True
    for c in m[3]:
        if has_sources(c):
            return True
    return False


def has_read_only(m) -> bool:
    if m[4]:
        return True
    for c in m[3]:
        if has_read_only(c):
            return True
    for c in m[5]:
        if has_read_only(c):
            return True
    return False


def is_nt(m) -> bool:
    return m[0][0] == "N"


def is_t(m) -> bool:
    return m[0][0] == "T"


def size(m) -> int:
    return 1 + sum(size(c) for c in m[3])


def total(m) -> int:
    """Number of node objects reachable through children AND sources."""
    return 1 + sum(total(c) for c in m[3]) + sum(total(c) for c in m[5])


def depth(m) -> int:
    return 1 + max((depth(c) for c in m[3]), default=0)


def at(m, path):
    for i in path:
        m = m[3][i] if i >= 0 else m[5][-1 - i]
    return m


def preorder_paths(m, prefix=()) -> list:
    """Children only (the order of flatten())."""
    out = [prefix]
    for i, c in enumerate(m[3]):
        out.extend(preorder_paths(c, prefix + (i,)))
    return out


def all_paths(m, prefix=()) -> list:
    """Every node object reachable from ``m``: the node, its children's subtrees, then its
    sources' subtrees (the order in which TreeSim scans a real tree)."""
    out = [prefix]
    for i, c in enumerate(m[3]):
        out.extend(all_paths(c, prefix + (i,)))
    for i, c in enumerate(m[5]):
        out.extend(all_paths(c, prefix + (-1 - i,)))
    return out


def path_of_index(m, idx: int):
    ps = all_paths(m)
    return ps[idx] if 0 <= idx < len(ps) else None


def in_source(path) -> bool:
    for i in path:
        if i < 0:
            return True
    return False


def source_base(path) -> tuple:
    """Path of the innermost source root the addressed node lives in (() = not below a source)."""
    k = -1
    for j, i in enumerate(path):
        if i < 0:
            k = j
    return tuple(path[: k + 1])


def child_equals_source(root, path) -> bool:
    """Walking up from the addressed node along CHILD steps (stopping at a real source boundary):
    is there a node that is structurally equal (``core``) to one of its parent's sources?"""
    for j in range(len(path) - 1, -1, -1):
        if path[j] < 0:
            return False
        parent = at(root, path[:j])
        if parent[5]:
            me = core(at(root, path[: j + 1]))
            for s in parent[5]:
                if core(s) == me:
                    return True
    return False


def show(m, limit: int = 160) -> str:
    """Compact, address-free rendering used in operation lists and details."""

    def r(n):
        s = n[0]
        ro = "!" if n[4] else ""
        src = "[src " + ",".join(r(c) for c in n[5]) + "]" if n[5] else ""
        if s[0] == "T":
            return repr(s[1]) + ro + src
        head = s[1]
        if head.startswith("<__") and ":" in head and "_" in head[3:]:
            head = head[: head.rfind("_")] + ">"  # control-flow node: drop the per-spec id suffix
        head += ro
        if n[1] is not None or n[2] is not None:
            head += "{%s>%s}" % (n[1], n[2])
        if not n[3]:
            return head + src
        return head + "(" + ",".join(r(c) for c in n[3]) + ")" + src

    t = r(m)
    return t if len(t) <= limit else t[: limit - 3] + "..."


# ----------------------------------------------------------------------------
# mutating operations (documented effect)
# ----------------------------------------------------------------------------
def add_child(root, path, sub) -> None:
    at(root, path)[3].append(sub)


def set_children(root, path, kids: list) -> None:
    at(root, path)[3] = list(kids)


def set_symbol(root, path, sym) -> None:
    at(root, path)[0] = sym


def set_sender(root, path, who) -> None:
    at(root, path)[1] = who


def set_recipient(root, path, who) -> None:
    at(root, path)[2] = who


def set_all_read_only(root, path, flag: bool) -> None:
    """The node, its children and its sources, recursively."""

    def rec(n):
        n[4] = bool(flag)
        for c in n[3]:
            rec(c)
        for c in n[5]:
            rec(c)

    rec(at(root, path))


def set_sources(root, path, srcs: list) -> None:
    at(root, path)[5] = list(srcs)


def append_valid(root, path, hookin) -> bool:
    """Would ``append(hookin, tree)`` at ``path`` succeed?  A step (name, new) with new=False
    requires the current last child to be a nonterminal of that name."""
    cur = at(root, path)
    virtual = False  # inside a freshly created node: no children
    for name, new in hookin:
        if new:
            virtual = True
            continue
        if virtual or not cur[3] or cur[3][-1][0] != ("N", name):
            return False
        cur = cur[3][-1]
    return True


def append(root, path, hookin, sub) -> None:
    """Documented effect of a *valid* append: walk the last-child chain, creating a new
    node for every step flagged True, and add ``sub`` at the end."""
    cur = at(root, path)
    for name, new in hookin:
        if new:
            cur[3].append(node(NT(name)))
        cur = cur[3][-1]
    cur[3].append(sub)


def split_end(root, path) -> None:
    """Remove everything to the right of the path root -> node (in place)."""
    cur = root
    for i in path:
        cur[3] = cur[3][: i + 1]
        cur = cur[3][i]


def prefix(root, path):
    """split_end, then drop the node itself; returns the path of its parent."""
    assert len(path) > 0
    split_end(root, path)
    parent = at(root, path[:-1])
    parent[3] = parent[3][:-1]
    return path[:-1]


def replace_multiple(root, repl: list) -> list:
    """``repl`` = [(child-step path, replacement model)] for a grammar WITHOUT generators.

    What ``DerivationTree.replace_multiple`` does (read off the unchanged product):

    * the batch is a table path -> replacement; the same path twice: the last pair wins;
    * the tree is rebuilt top-down; a node whose path is in the table, whose symbol equals the
      replacement's symbol and which is NOT read-only becomes a copy of the replacement (sender,
      recipient and read-only flags of the replacement are kept); a read-only replacee is refused
      (it is rebuilt like any other node);
    * the walk then CONTINUES INSIDE THE COPY with the same path arithmetic: for nested replacees
      (a node and one of its descendants in one batch) the inner path is looked up in the outer
      replacement, and is applied there iff a non-read-only node with the inner replacement's symbol
      sits at that path;
    * no node of the result keeps sources (no symbol of the grammar has a generator)."""
    table = {}
    for p, r in repl:
        table[tuple(p)] = r

    def rec(n, cur):
        r = table.get(cur)
        if r is not None and r[0] == n[0] and not n[4]:
            n = r
        return [n[0], n[1], n[2], [rec(c, cur + (i,)) for i, c in enumerate(n[3])], n[4], []]

    return rec(root, ())


def deepcopy(root, path, copy_children: bool, copy_parent: bool, copy_params: bool = True):
    """Returns (model of the tree the copy lives in, path of the copy inside it).  The flags apply
    to the copied node only; everything else that is reachable is copied completely."""
    if copy_parent:
        new = clone(root)
        nd = at(new, path)
        if not copy_children:
            nd[3] = []
        if not copy_params:
            nd[5] = []
        return new, tuple(path)
    sub = clone(at(root, path))
    if not copy_children:
        sub[3] = []
    if not copy_params:
        sub[5] = []
    return sub, ()


def is_controlflow(m) -> bool:
    return m[0][0] == "N" and m[0][1].startswith("<__")


def has_controlflow(m) -> bool:
    if is_controlflow(m) or (m[0][0] == "N" and m[0][1].startswith("<*")):
        return True
    for c in m[3]:
        if has_controlflow(c):
            return True
    return False


def collapse(m) -> Optional[list]:
    """Grammar.collapse: every ``<__...>`` node is replaced by its (collapsed) children, in place in
    the child list of the nearest ordinary ancestor; every other node is copied with its flags and
    its sources.  None = the root itself is a control-flow node (documented error)."""
    if is_controlflow(m):
        return None

    def rec(n) -> list:
        kids: list = []
        for c in n[3]:
            kids.extend(rec(c))
        if is_controlflow(n):
            return kids
        return [[n[0], n[1], n[2], kids, n[4], [clone(s) for s in n[5]]]]

    return rec(m)[0]


# ----------------------------------------------------------------------------
# selectors (paths, in the order the accessors are documented to return nodes)
# ----------------------------------------------------------------------------
def find_all_trees(m, name, prefix=()) -> list:
    """Post-order over nonterminal children, then nonterminal sources: descendants first, the
    node itself last."""
    out = []
    for i, c in enumerate(m[3]):
        if c[0][0] == "N":
            out.extend(find_all_trees(c, name, prefix + (i,)))
    for i, c in enumerate(m[5]):
        if c[0][0] == "N":
            out.extend(find_all_trees(c, name, prefix + (-1 - i,)))
    if m[0] == ("N", name):
        out.append(prefix)
    return out


def find_direct_trees(m, name, prefix=()) -> list:
    return [prefix + (i,) for i, c in enumerate(m[3]) if c[0] == ("N", name)] + [prefix + (-1 - i,) for i, c in enumerate(m[5]) if c[0] == ("N", name)]


def find_all_nodes(m, name, prefix=(), exclude_read_only: bool = True) -> list:
    """Pre-order; a nonterminal node's children, then its sources; nothing below a terminal."""
    out = []
    if m[0][0] == "N":
        if m[0] == ("N", name) and not (exclude_read_only and m[4]):
            out.append(prefix)
        for i, c in enumerate(m[3]):
            out.extend(find_all_nodes(c, name, prefix + (i,), exclude_read_only))
        for i, c in enumerate(m[5]):
            out.extend(find_all_nodes(c, name, prefix + (-1 - i,), exclude_read_only))
    return out


def nodes_named(m, name, prefix=()) -> list:
    """Child-step paths of every node with nonterminal ``name`` (flags ignored)."""
    out = []
    if m[0] == ("N", name):
        out.append(prefix)
    for i, c in enumerate(m[3]):
        out.extend(nodes_named(c, name, prefix + (i,)))
    return out


def names_below_sources(m) -> set:
    """Names of the nonterminal nodes that are only reachable through a source of ``m`` or of one
    of its descendants."""
    out = set()
    for c in m[5]:
        out |= non_terminal_symbols(c, False)
    for c in m[3]:
        out |= names_below_sources(c)
    return out


def non_terminal_symbols(m, exclude_read_only: bool = True) -> set:
    """Names of the nonterminals of every node below children and sources (read-only nodes
    themselves left out on request; their descendants are still visited)."""
    out = set()
    if m[0][0] == "N" and not (exclude_read_only and m[4]):
        out.add(m[0][1])
    for c in m[3]:
        out |= non_terminal_symbols(c, exclude_read_only)
    for c in m[5]:
        out |= non_terminal_symbols(c, exclude_read_only)
    return out


# ----------------------------------------------------------------------------
# values (C09)
# ----------------------------------------------------------------------------
def leaves(m, prefix=()) -> list:
    """[(value, path)] of the terminal leaves, left to right."""
    if m[0][0] == "T":
        return [(m[0][1], prefix)]
    out = []
    for i, c in enumerate(m[3]):
        out.extend(leaves(c, prefix + (i,)))
    return out


def _bits_to_bytes(bits: list) -> bytes:
    out = bytearray()
    for i in range(0, len(bits), 8):
        b = 0
        for x in bits[i : i + 8]:
            b = (b << 1) | x
        out.append(b)
    return bytes(out)


def _bytes_to_bits(data: bytes) -> str:
    return "".join(format(b, "08b") for b in data)


def fold(m) -> dict:
    """Left-to-right concatenation of the leaves.

    kind:  'empty' (no terminal leaf) | 'string' (text leaves only) | 'bits' (bit leaves only)
           | 'bytes' (anything else)
    error: a text/bytes leaf sits at a bit position that is not a multiple of eight
    data:  the bytes up to the last text/bytes leaf; tail: the bits after it
    """
    lv = leaves(m)
    data = bytearray()
    pending: list = []
    text: list = []
    n_str = n_bytes = n_bits = 0
    error = False
    for v, _p in lv:
        if isinstance(v, int) and not isinstance(v, bool):
            pending.append(v)
            n_bits += 1
            continue
        if len(pending) % 8 != 0:
            error = True
            break
        data += _bits_to_bytes(pending)
        pending = []
        if isinstance(v, str):
            n_str += 1
            text.append(v)
            data += v.encode("utf-8")
        else:
            n_bytes += 1
            data += v
    if not lv:
        kind = "empty"
    elif n_bytes == 0 and n_bits == 0:
        kind = "string"
    elif n_bytes == 0 and n_str == 0:
        kind = "bits"
    else:
        kind = "bytes"
    return {
        "kind": kind,
        "error": error,
        "data": bytes(data),
        "tail": tuple(pending),
        "text": "".join(text),
        "aligned": (not error) and len(pending) % 8 == 0,
    }


def bits_span_siblings(m) -> bool:
    """Is there a run of consecutive bit leaves whose members have different parents?"""
    prev_parent = None
    in_run = False
    for v, p in leaves(m):
        if isinstance(v, int) and not isinstance(v, bool):
            if in_run and p[:-1] != prev_parent:
                return True
            in_run = True
            prev_parent = p[:-1]
        else:
            in_run = False
    return False


# the conversions TreeSim requests, simplest first
CONVS = (
    "str",
    "bytes",
    "to_bits",
    "int",
    "to_string",
    "to_bytes",
    "value",
    "should_be_serialized_to_bytes",
    "contains_bits",
    "contains_bytes",
)

TYPE_OF_KIND = {"empty": "EMPTY", "string": "STRING", "bits": "TRAILING_BITS_ONLY", "bytes": "BYTES"}


def views(m) -> dict:
    """conv -> ("ok", value) | ("err", CONV_ERROR) | None (= the property does not pin it down).

    Pinned down:
      * mis-aligned text/bytes leaf: str / bytes / to_bits (and their to_* twins) raise the
        conversion error;
      * byte-aligned trees: bytes = the fold, bits = those bytes in groups of eight, str = the
        text (text-only trees) or the Latin-1 decoding of the bytes;
      * bit-only trees of any length: to_bits = the bits, int = their big-endian value;
      * contains_bits / contains_bytes / should_be_serialized_to_bytes: leaf census.
    Left open (None): trees whose trailing bits do not fill a byte (except the two bit-only
    answers above), int() of text or bytes, the TreeValue object returned by value().
    """
    f = fold(m)
    lv = [v for v, _ in leaves(m)]
    has_bits = any(isinstance(v, int) for v in lv)
    has_bytes = any(isinstance(v, bytes) for v in lv)
    out: dict = {c: None for c in CONVS}
    out["contains_bits"] = ("ok", has_bits)
    out["contains_bytes"] = ("ok", has_bytes)
    out["should_be_serialized_to_bytes"] = ("ok", has_bits or has_bytes)
    if f["error"]:
        e = ("err", CONV_ERROR)
        for c in ("str", "bytes", "to_bits", "to_string", "to_bytes"):
            out[c] = e
        return out
    if f["aligned"]:
        full = f["data"] + _bits_to_bytes(list(f["tail"]))
        out["bytes"] = out["to_bytes"] = ("ok", full)
        out["to_bits"] = ("ok", _bytes_to_bits(full))
        if f["kind"] == "string":
            s = f["text"]
        elif f["kind"] == "empty":
            s = ""
        else:
            s = full.decode("latin-1")
        out["str"] = out["to_string"] = ("ok", s)
    if f["kind"] == "bits":
        bits = "".join(str(b) for b in f["tail"])
        out["to_bits"] = ("ok", bits)
        out["int"] = ("ok", int(bits, 2))
    return out


def value_type(m) -> Optional[str]:
    """Name of the documented TreeValueType of the fold (None when the fold is an error)."""
    f = fold(m)
    if f["error"]:
        return None
    return TYPE_OF_KIND[f["kind"]]
