"""Independent derivation checker and pure tree model (imports nothing from Fandango).

A real DerivationTree is first converted to a *model tree* by ``to_model`` (duck-typed
access to .symbol/.children/.sender/.recipient only), then every inner node's child
sequence is matched against the SpecGen AST rule of its symbol.

model tree: ("N", name, (children...), sender, recipient) | ("T", value)
  value: str | bytes | int (bit)
"""

from __future__ import annotations

import re
from typing import Any, Optional


def to_model(tree) -> tuple:
    sym = tree.symbol
    if getattr(sym, "is_terminal", False):
        v = sym.value()
        t = str(getattr(v, "type_", ""))
        if "BYTES" in t:
            return ("T", bytes(v))
        if "TRAILING" in t:
            return ("T", int(v.to_bits(), 2) if v.to_bits() != "" else 0)
        if "EMPTY" in t:
            return ("T", "")
        return ("T", str(v))
    name = sym.name()[1:-1] if hasattr(sym, "name") else str(sym)
    return ("N", name, tuple(to_model(c) for c in tree.children), tree.sender, tree.recipient)


def skey(model) -> tuple:
    """Structural key: symbols, parties, shape, leaf values."""
    return model


def text_of(model) -> str:
    if model[0] == "T":
        v = model[1]
        return v if isinstance(v, str) else (v.decode("latin-1") if isinstance(v, bytes) else str(v))
    return "".join(text_of(c) for c in model[2])


class DerivationError(Exception):
    def __init__(self, path, why):
        super().__init__("%s: %s" % ("/".join(path), why))
        self.path = path
        self.why = why


def _leaf_matches(node, leaf) -> bool:
    if leaf[0] != "T":
        return False
    v = leaf[1]
    k = node[0]
    if k == "lit":
        return type(v) is type(node[1]) and v == node[1]
    if k == "bit":
        return isinstance(v, int) and not isinstance(v, bool) and v == node[1]
    if k == "rx":
        if isinstance(node[1], bytes):
            return isinstance(v, bytes) and re.fullmatch(node[1], v, re.DOTALL) is not None
        return isinstance(v, str) and re.fullmatch(node[1], v, re.DOTALL) is not None
    return False


def _ends(g, node, kids, i, memo, max_rep) -> frozenset:
    """All j such that kids[i:j] spells one expansion of ``node``."""
    key = (id(node), i)
    r = memo.get(key)
    if r is not None:
        return r
    memo[key] = frozenset()  # cycle guard
    k = node[0]
    out: set = set()
    if k in ("lit", "bit", "rx"):
        if k == "lit" and len(node[1]) == 0:
            out.add(i)  # an empty literal may or may not leave a leaf
        if i < len(kids) and _leaf_matches(node, kids[i]):
            out.add(i + 1)
    elif k == "nt":
        if i < len(kids) and kids[i][0] == "N" and kids[i][1] == node[1]:
            out.add(i + 1)
    elif k == "cat":
        cur = {i}
        for x in node[1]:
            nxt: set = set()
            for p in cur:
                nxt |= _ends(g, x, kids, p, memo, max_rep)
            cur = nxt
            if not cur:
                break
        out = cur
    elif k == "alt":
        for x in node[1]:
            out |= _ends(g, x, kids, i, memo, max_rep)
    else:
        if k == "star":
            lo, hi = 0, None
        elif k == "plus":
            lo, hi = 1, None
        elif k == "opt":
            lo, hi = 0, 1
        elif k == "rep":
            lo, hi = node[2], node[3]
        else:  # crep: structure only; the bound is a constraint (C02)
            lo, hi = 0, None
        cur = {i}
        n = 0
        if lo == 0:
            out.add(i)
        while cur and (hi is None or n < hi):
            nxt = set()
            for p in cur:
                for q in _ends(g, node[1], kids, p, memo, max_rep):
                    if q == p and hi is None and n >= lo:
                        continue  # an empty iteration cannot help once the minimum is met
                    nxt.add(q)
            n += 1
            if n >= lo:
                out |= nxt
            cur = nxt
    r = frozenset(out)
    memo[key] = r
    return r


def check_derivation(g, model, start: Optional[str] = None, path=()) -> Optional[str]:
    """None if ``model`` is a derivation of grammar ``g`` from <start>; else a message
    naming the first offending node."""
    if model[0] != "N":
        return "%s: root is a terminal" % ("/".join(path) or "<root>")
    if start is not None and model[1] != start:
        return "root symbol <%s> is not the requested start <%s>" % (model[1], start)
    return _check_node(g, model, (model[1],))


def _check_node(g, model, path) -> Optional[str]:
    name = model[1]
    if name not in g.rules:
        return "%s: symbol <%s> has no rule in the spec (helper symbol leaked?)" % ("/".join(path), name)
    kids = model[2]
    memo: dict = {}
    ends = _ends(g, g.rules[name], kids, 0, memo, None)
    if len(kids) not in ends:
        shape = " ".join(("<%s>" % c[1]) if c[0] == "N" else repr(c[1]) for c in kids)
        return "%s: children [%s] are not an expansion of <%s>" % ("/".join(path), shape[:300], name)
    for idx, c in enumerate(kids):
        if c[0] == "N":
            e = _check_node(g, c, path + ("%d:%s" % (idx, c[1]),))
            if e:
                return e
    return None


# ----------------------------------------------------------------------------
# value fold of a model tree (text / bytes / bits), independent of tree_value.py
# ----------------------------------------------------------------------------
class Misaligned(Exception):
    pass


def model_leaves(model) -> list:
    if model[0] == "T":
        return [model[1]]
    out = []
    for c in model[2]:
        out.extend(model_leaves(c))
    return out


def fold_bits(leaves, encoding="utf-8") -> str:
    """Bit string of the whole leaf sequence; a str/bytes leaf needs byte alignment."""
    bits = []
    for v in leaves:
        if isinstance(v, int) and not isinstance(v, bool):
            bits.append("1" if v else "0")
        else:
            if len(bits) % 8 != 0 and len(v) > 0:
                raise Misaligned("byte data at bit offset %d" % len(bits))
            b = v.encode(encoding) if isinstance(v, str) else v
            bits.append("".join(format(x, "08b") for x in b))
    return "".join(bits)


def kinds(leaves) -> set:
    out = set()
    for v in leaves:
        if isinstance(v, int) and not isinstance(v, bool):
            out.add("bit")
        elif isinstance(v, bytes):
            out.add("bytes")
        else:
            out.add("str")
    return out
