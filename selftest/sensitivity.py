"""Sensitivity self-test: apply one realistic mutant to a scratch copy of /repo/src and expect the
quick check of its property to report a VIOLATION (and the replay file to reproduce).

Not registered in MANIFEST (uses a scratch directory under /tmp).  Usage:
    /venv/bin/python -B -m selftest.sensitivity [name-substring ...]
Mutants are (file, old, new) replacements in selftest/mutants.py; seeded sub-agent patches under
/verif/seeded/<id>/patch.diff are picked up as well.
"""
import json
import os
import shutil
import subprocess
import sys
import time

VERIF = os.path.dirname(os.path.dirname(os.path.abspath(__file__)))
sys.path.insert(0, VERIF)
from selftest.mutants import MUTANTS  # noqa


def run_one(name, prop, apply_fn, runs, wall, extra_env=None):
    scratch = "/tmp/verif_mut_%s_%d" % (name.replace("/", "_"), os.getpid())
    shutil.rmtree(scratch, ignore_errors=True)
    os.makedirs(scratch)
    try:
        subprocess.check_call(["cp", "-r", "/repo/src", scratch + "/src"])
        apply_fn(scratch)
        env = dict(os.environ)
        env.update({"VERIF_REPO_SRC": scratch + "/src", "VERIF_RUNS": str(runs), "VERIF_WALL": str(wall), "VERIF_BOOTED": "0"})
        env.update(extra_env or {})
        t = time.time()
        p = subprocess.run([os.path.join(VERIF, "check"), prop], env=env, capture_output=True, text=True, cwd=VERIF, timeout=wall * 4 + 300)
        out = p.stdout
        viol = [l for l in out.splitlines() if l.startswith("VIOLATION")]
        return {"name": name, "property": prop, "exit": p.returncode, "violations": [v[:260] for v in viol[:3]], "wall": round(time.time() - t, 1), "summary": [l for l in out.splitlines() if l.startswith("summary")][-1:], "harness": [l[:300] for l in out.splitlines() if l.startswith("HARNESS")][:2]}
    finally:
        shutil.rmtree(scratch, ignore_errors=True)


def main(argv):
    sel = argv
    results = []
    jobs = []
    for m in MUTANTS:
        if sel and not any(s in m["name"] for s in sel):
            continue

        def apply_fn(scratch, m=m):
            path = os.path.join(scratch, m["file"])
            s = open(path).read()
            assert s.count(m["old"]) == 1, "mutant %s: old text found %d times" % (m["name"], s.count(m["old"]))
            open(path, "w").write(s.replace(m["old"], m["new"]))

        jobs.append((m["name"], m["property"], apply_fn, m.get("runs", 3000), m.get("wall", 90)))
    seeded = os.path.join(VERIF, "seeded")
    if os.path.isdir(seeded):
        for d in sorted(os.listdir(seeded)):
            meta_p = os.path.join(seeded, d, "meta.json")
            if not os.path.exists(meta_p):
                continue
            meta = json.load(open(meta_p))
            name = "seeded/" + d
            if sel and not any(s in name for s in sel):
                continue

            def apply_fn(scratch, d=d):
                subprocess.check_call(["patch", "-s", "-p1", "-d", scratch, "-i", os.path.join(seeded, d, "patch.diff")])

            for prop in meta.get("check_properties", [meta["property"]]):
                jobs.append((name, prop, apply_fn, meta.get("runs", 4000), meta.get("wall", 120)))
    for j in jobs:
        r = run_one(*j)
        results.append(r)
        print(json.dumps(r), flush=True)
    caught = sum(1 for r in results if r["exit"] == 1)
    print("caught %d of %d" % (caught, len(results)))
    return 0


if __name__ == "__main__":
    sys.exit(main(sys.argv[1:]))
