"""Determinism self-test ("prove determinism first").

For every registered simulator: many seeds, each executed
  (a) twice in one process with other runs in between (history independence),
  (b) once by *replaying the recorded decision trace* (record/replay equivalence),
  (c) once in a fresh interpreter (subprocess), optionally under another PYTHONHASHSEED
      (digests are only compared within one hash seed).
Any digest mismatch is a harness bug.  Usage: ./check selftest-determinism [--tier thorough]
"""
import json
import os
import subprocess
import sys

VERIF = os.path.dirname(os.path.dirname(os.path.abspath(__file__)))


def _entry(prop, sim_name):
    from simfw.registry import CHECKS

    ent = CHECKS[prop]
    for e in [ent] + list(ent.get("further", [])):
        if e["sim"] == sim_name:
            return e
    raise KeyError(sim_name)


def digests(prop, seeds, k, replay_too=True, sim_name=None):
    from simfw import runner
    from simfw.registry import CHECKS

    ent = _entry(prop, sim_name or CHECKS[prop]["sim"])
    sim = runner.load_sim(ent["sim"])
    cfg = dict(ent["quick"])
    out = {}
    for s in seeds:
        spec_seed = (s // k) * k
        r = runner.execute(sim, prop, s, spec_seed, cfg)
        d = {"a": r["digest"], "status": r["status"]}
        if replay_too and r["status"] in ("ok", "violation"):
            r2 = runner.execute(sim, prop, s, spec_seed, cfg, replay=r["trace"])
            d["replay"] = r2["digest"]
        out[s] = d
    return out


def child(prop, seeds, k, sim_name=None):
    from simfw import boot

    boot.boot()
    boot.warm_front_end()
    print("RESULT " + json.dumps(digests(prop, seeds, k, replay_too=False, sim_name=sim_name)))


def main(tier="quick"):
    from simfw import boot
    from simfw.registry import CHECKS

    boot.boot()
    boot.warm_front_end()
    n = 24 if tier != "thorough" else 200
    bad = 0
    total = 0
    sims_done = set()
    todo = []
    for prop in sorted(CHECKS):
        for e in [CHECKS[prop]] + list(CHECKS[prop].get("further", [])):
            if e["sim"] not in sims_done:
                sims_done.add(e["sim"])
                todo.append((prop, e["sim"], int(e["quick"].get("runs_per_spec", 1))))
    only = [x for x in os.environ.get("VERIF_SELFTEST_SIMS", "").split(",") if x]
    for prop, sim, k in todo:
        if only and sim not in only:
            continue
        seeds = [7_000_000 + i * 5 for i in range(n)]
        first = digests(prop, seeds, k, sim_name=sim)
        second = digests(prop, list(reversed(seeds)), k, replay_too=False, sim_name=sim)
        fresh = {}
        for hs in ("0",):
            env = dict(os.environ)
            env["PYTHONHASHSEED"] = hs
            env["VERIF_HASHSEED"] = hs
            env["VERIF_BOOTED"] = "1"
            p = subprocess.run([sys.executable, "-B", "-c", "import sys; sys.path.insert(0,%r); from selftest import determinism as d; d.child(%r,%r,%d,%r)" % (VERIF, prop, seeds[: max(6, n // 4)], k, sim)], env=env, capture_output=True, text=True, cwd=VERIF, timeout=3600)
            for line in p.stdout.splitlines():
                if line.startswith("RESULT "):
                    fresh = {int(a): b for a, b in json.loads(line[7:]).items()}
            if not fresh:
                print("child failed:", p.stderr[-500:])
                bad += 1
        for s in seeds:
            total += 1
            a = first[s]
            probs = []
            if a["status"] not in ("ok", "violation"):
                continue
            if second[s]["status"] in ("ok", "violation") and second[s]["a"] != a["a"]:
                probs.append("second-execution")
            if "replay" in a and a["replay"] != a["a"]:
                probs.append("record-vs-replay")
            if s in fresh and fresh[s]["status"] in ("ok", "violation") and fresh[s]["a"] != a["a"]:
                probs.append("fresh-interpreter")
            if probs:
                bad += 1
                print("MISMATCH sim=%s seed=%d: %s" % (sim, s, probs))
        print("sim %s: %d seeds x (2 executions + replay) + %d fresh-interpreter runs" % (sim, n, len(fresh)), flush=True)
    print("determinism selftest: %d seeds, %d mismatches" % (total, bad))
    return 0 if bad == 0 else 2
