"""Hand-written sensitivity mutants: realistic changes that keep the test suite green."""

MUTANTS = [
    {
        "name": "C19-revert-forecaster-fix",
        "property": "C19",
        "file": "src/fandango/io/navigation/visitor/continuing_nodevisitor.py",
        "old": "            if not continue_exploring:\n                # The last existing element is still incomplete, so the repetition\n                # can neither start a new element nor end here.\n                return False\n",
        "new": "",
    },
    {
        "name": "C19-rep-max-off-by-one",
        "property": "C19",
        "file": "src/fandango/io/navigation/visitor/continuing_nodevisitor.py",
        "old": "        if continue_exploring and tree_len < rep_max:",
        "new": "        if continue_exploring and tree_len <= rep_max:",
    },
    {
        "name": "C20-clear-by-party-off-by-one",
        "property": "C20",
        "file": "src/fandango/io/__init__.py",
        "old": "if not (sender == party_name and idx <= to_idx)",
        "new": "if not (sender == party_name and idx < to_idx)",
    },
    {
        "name": "C20-accept-remote-without-constraints",
        "property": "C20",
        "file": "src/fandango/evolution/algorithm.py",
        "old": "                        if fitness == 1.0:\n                            hookin_success = True",
        "new": "                        if fitness >= 0.0:\n                            hookin_success = True",
    },
    {
        "name": "C20-clear-ignores-sender",
        "property": "C20",
        "file": "src/fandango/io/__init__.py",
        "old": "if not (sender == party_name and idx <= to_idx)",
        "new": "if not (idx <= to_idx)",
    },
    {
        "name": "C13-can-continue-skips-completion",
        "property": "C13",
        "file": "src/fandango/language/grammar/parser/iterative_parser.py",
        "old": "        for state in table[-1]:\n            if state.finished():\n                self.complete(state, table, self._table_idx)\n\n        return any(",
        "new": "        return any(",
    },
    {
        "name": "C13-incomplete-idx-not-reset",
        "property": "C13",
        "file": "src/fandango/language/grammar/parser/iterative_parser.py",
        "old": "            next_state = state.next()\n            next_state.is_incomplete = False\n            next_state.incomplete_idx = 0\n            tree = ParserDerivationTree(Terminal(check_word[:match_length]))\n            if state.is_incomplete:\n                next_state.children[-1] = tree\n            else:\n                next_state.append_child(tree)\n        table[k + ((match_length - state.incomplete_idx) * table_idx_multiplier)].add(",
        "new": "            next_state = state.next()\n            next_state.is_incomplete = False\n            tree = ParserDerivationTree(Terminal(check_word[:match_length]))\n            if state.is_incomplete:\n                next_state.children[-1] = tree\n            else:\n                next_state.append_child(tree)\n        table[k + ((match_length - state.incomplete_idx) * table_idx_multiplier)].add(",
    },
]
