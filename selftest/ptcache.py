"""Self-test of the on-disk parse-tree cache (simfw.boot): a spec object built from trees that
were pickled, stripped of parser/stream references and loaded again must be indistinguishable
from one built from a fresh ANTLR parse -- same printed grammar, generators and constraints and
the same outputs for the same random seed.  Usage: python -B -m selftest.ptcache [n]"""
import os
import random
import sys

VERIF = os.path.dirname(os.path.dirname(os.path.abspath(__file__)))
sys.path.insert(0, VERIF)


def describe(f, n_out=6):
    rules = {str(k): v.format_as_spec() for k, v in f.grammar.rules.items()}
    gens = {str(k): repr(v) for k, v in getattr(f.grammar, "generators", {}).items()}
    cons = [c.format_as_spec() for c in f.constraints]
    random.seed(12345)
    outs = []
    for _ in range(n_out):
        try:
            outs.append(repr(f.grammar.fuzz("<start>", 30).to_string()))
        except Exception as e:  # generators calling back into an absent harness etc.
            outs.append("raised " + type(e).__name__)
    return rules, gens, cons, outs


def main(n=40):
    from simfw import boot

    boot.ensure_env()
    boot.boot()
    from gen import grammar as G
    from gen import proto as P
    from gen import searchspec as S
    from simfw.choices import Choices
    from simfw.registry import GRAMMAR_DEFAULT
    from sims.common import fresh_spec

    bad = 0
    for i in range(n):
        ch = Choices(9_100_000 + i, 9_100_000 + i)
        kind = i % 3
        if kind == 0:
            text = S.gen_searchspec(ch, {"generators": False}).to_fan()
        elif kind == 1:
            text = G.gen_grammar(ch, dict(GRAMMAR_DEFAULT)).to_fan()
        else:
            text = P.gen_protocol(ch, {}).to_fan()
        os.environ["VERIF_PTCACHE"] = "0"
        boot.PARSE_TREE_MEMO.clear()
        a = describe(fresh_spec(text))  # fresh ANTLR parse, nothing cached
        os.environ["VERIF_PTCACHE"] = "1"
        boot.PARSE_TREE_MEMO.clear()
        fresh_spec(text)  # fills the disk cache (or hits it)
        boot.PARSE_TREE_MEMO.clear()
        before = boot.PARSE_TREE_STATS.get("disk_hits", 0)
        b = describe(fresh_spec(text))  # every statement comes from disk
        hits = boot.PARSE_TREE_STATS.get("disk_hits", 0) - before
        if a != b or hits == 0:
            bad += 1
            print("MISMATCH spec %d (disk hits %d)\n%s" % (i, hits, text))
    print("ptcache selftest: %d specs, %d mismatches" % (n, bad))
    return 0 if bad == 0 else 2


if __name__ == "__main__":
    sys.exit(main(int(sys.argv[1]) if len(sys.argv) > 1 else 40))
