"""ProtoGen: protocol specs (message-level regular structure + message bodies + parties).

State rules are built from message occurrences ("nt", type, sender, recipient), state
references ("nt", state) and the usual combinators.  Message bodies are ordinary rules
(see gen.grammar).  The party classes are printed into the spec and call back into
``simfw.bridge`` -- the spec language's own extension point is the transport seam.
"""

from __future__ import annotations

from typing import Any, Optional

from . import grammar as G

KEYWORDS = ["HELO", "ACK", "REQ", "OK", "ERR", "BYE", "DATA", "PING", "PONG", "QUIT", "NOP", "AUTH"]


class Proto(G.Gram):
    def __init__(self):
        super().__init__("text")
        self.fuzzers: list[str] = []
        self.externals: list[str] = []
        self.msg_types: dict[str, dict] = {}  # name -> {kw, field, fieldrule, form, constraint}
        self.state_rules: list[str] = []
        self.field_constraints: dict[str, tuple] = {}  # field nt -> (kind, k, r)
        self.eq_constraints: list = []  # (field a, field b): every occurrence of a equals every occurrence of b

    def is_msg(self, node) -> bool:
        return node[0] == "nt" and len(node) > 2 and node[2] is not None

    def is_invisible(self, node) -> bool:
        return self.is_msg(node) and node[2] in self.externals and node[3] in self.externals

    def nullable(self, node, seen=()) -> bool:
        # a message between two external parties is sliced away: for Fandango it is the empty word
        if node[0] == "nt" and self.is_invisible(node):
            return True
        if node[0] == "nt":
            if node[1] in seen or node[1] not in self.rules:
                return False
            return self.nullable(self.rules[node[1]], seen + (node[1],))
        if node[0] == "cat":
            return all(self.nullable(x, seen) for x in node[1])
        if node[0] == "alt":
            return any(self.nullable(x, seen) for x in node[1])
        if node[0] in ("star", "opt"):
            return True
        if node[0] == "plus":
            return self.nullable(node[1], seen)
        if node[0] == "rep":
            return node[2] == 0 or self.nullable(node[1], seen)
        return super().nullable(node, seen)

    def party_code(self) -> str:
        return "from simfw.parties import %s\n" % ", ".join(self.fuzzers + self.externals)

    def to_fan(self, with_constraints: bool = True, with_parties: bool = True) -> str:
        s = super().to_fan(with_constraints)
        if with_parties:
            s += self.party_code()
        return s


def _occ(ch, p: Proto, cfg) -> tuple:
    name = ch.pick(sorted(p.msg_types), "spec", "occ")
    m = p.msg_types[name]
    snd, rcp = m["sender"], m["recipient"]
    if cfg.get("reuse_types") and ch.coin(0.3, "spec", "other-pair"):
        # the same message type used by another party pair at this site
        if snd in p.fuzzers:
            rcp = ch.pick(p.externals, "spec", "alt-rcp")
        else:
            snd = ch.pick(p.externals, "spec", "alt-snd")
            if cfg.get("ext_to_ext") and len(p.externals) > 1 and ch.coin(0.4, "spec", "ext2ext"):
                # a message between two external parties: invisible to Fandango (sliced away)
                rcp = ch.pick([e for e in p.externals if e != snd], "spec", "ext-rcp")
        p.meta.setdefault("pairs", set()).add((name, snd, rcp))
    ov = p.meta.get("overlap")
    if ov and name in ov and (snd, rcp) == (m["sender"], m["recipient"]) and ch.coin(0.7, "spec", "overlap-alt"):
        # both prefix-overlapping message types are expected at this point: only the rest of the
        # remote data tells which one the peer is sending
        return ("alt", (("nt", ov[0], snd, rcp), ("nt", ov[1], snd, rcp)))
    return ("nt", name, snd, rcp)


def _s_atom(ch, p: Proto, cfg, avail, depth):
    w = [6, 3 if avail else 0, 2 if depth < cfg.get("max_depth", 1) else 0]
    c = ch.weighted(w, "spec", "satom")
    if c == 0:
        return _occ(ch, p, cfg)
    if c == 1:
        return ("nt", ch.pick(avail, "spec", "sref"))
    return _s_expr(ch, p, cfg, avail, depth + 1)


def _visible_occ(ch, p: Proto, cfg):
    for _ in range(20):
        o = _occ(ch, p, cfg)
        if not p.is_invisible(o):
            return o
    name = sorted(n for n, m in p.msg_types.items() if not (m["sender"] in p.externals and m["recipient"] in p.externals))[0]
    m = p.msg_types[name]
    return ("nt", name, m["sender"], m["recipient"])


def _nonnull(ch, p: Proto, cfg, body):
    if p.nullable(body):
        return ("cat", (body, _visible_occ(ch, p, cfg)))
    return body


def _s_item(ch, p: Proto, cfg, avail, depth):
    a = _s_atom(ch, p, cfg, avail, depth)
    c = ch.weighted([12, 1, 1, 3, 4, 1], "spec", "spost")
    if c == 0:
        return a
    if c == 1:
        return ("star", _nonnull(ch, p, cfg, a))
    if c == 2:
        return ("plus", _nonnull(ch, p, cfg, a))
    if c == 3:
        return ("opt", a)
    if c == 4:
        lo = ch.rng_range(0, 2, "spec", "slo")
        hi = lo + ch.rng_range(0 if lo > 0 else 1, 2, "spec", "shi")
        return ("rep", _nonnull(ch, p, cfg, a), lo, hi)
    lo = ch.rng_range(0, 2, "spec", "slo")
    return ("rep", _nonnull(ch, p, cfg, a), lo, None)


def _s_cat(ch, p: Proto, cfg, avail, depth):
    n = 1 + ch.weighted([3, 4, 2], "spec", "scat")
    items = [_s_item(ch, p, cfg, avail, depth) for _ in range(n)]
    if not cfg.get("adjacent_nullable"):
        # Fandango's Earley parser is incomplete for adjacent nullable items (listed finding);
        # keep them apart unless this spec opted in
        out = [items[0]]
        for x in items[1:]:
            if p.nullable(out[-1]) and p.nullable(x) and not (p.is_invisible(out[-1]) or p.is_invisible(x)):
                out.append(_visible_occ(ch, p, cfg))
            out.append(x)
        items = out
    return items[0] if len(items) == 1 else ("cat", tuple(items))


def first_msgs(p: Proto, node, seen=()) -> frozenset:
    """Message types that can come first in ``node`` (state references expanded)."""
    k = node[0]
    if k == "nt":
        if p.is_msg(node):
            return frozenset([node[1]])
        if node[1] in seen or node[1] not in p.rules:
            return frozenset()
        return first_msgs(p, p.rules[node[1]], seen + (node[1],))
    if k == "cat":
        out = set()
        for x in node[1]:
            out |= first_msgs(p, x, seen)
            if not p.nullable(x):
                break
        return frozenset(out)
    if k == "alt":
        out = set()
        for x in node[1]:
            out |= first_msgs(p, x, seen)
        return frozenset(out)
    return first_msgs(p, node[1], seen)


def _has_invisible(p: Proto, node) -> bool:
    k = node[0]
    if k == "nt":
        return p.is_invisible(node)
    if k in ("cat", "alt"):
        return any(_has_invisible(p, x) for x in node[1])
    if k in ("star", "plus", "opt", "rep"):
        return _has_invisible(p, node[1])
    return False


def _s_expr(ch, p: Proto, cfg, avail, depth):
    n = 1 + ch.weighted([5, 3, 1], "spec", "salt")
    alts = []
    firsts: set = set()
    for _ in range(n):
        for _try in range(3):
            a = _s_cat(ch, p, cfg, avail, depth)
            if p.nullable(a) and _has_invisible(p, a):
                # Fandango's slicing drops an alternative that consists of invisible messages only
                # instead of turning it into the empty word; what the sliced spec should mean there is
                # not pinned down by the property, so such alternatives are not generated
                a = ("cat", (a, _visible_occ(ch, p, cfg)))
            fs = first_msgs(p, a)
            if a not in alts and (not cfg.get("ll1_alternatives", True) or not (fs & firsts)):
                alts.append(a)
                firsts |= fs
                break
    if not alts:
        alts.append(_s_cat(ch, p, cfg, avail, depth))
    return alts[0] if len(alts) == 1 else ("alt", tuple(alts))


def gen_protocol(ch, cfg: dict) -> Proto:
    """Most specs are drawn from the *plain* class (see non_plain_features); a minority is wild."""
    wild = ch.coin(cfg.get("wild_rate", 0.25), "spec", "wild-grammar")
    p = None
    for attempt in range(10):
        p = _gen_protocol_once(ch, cfg)
        feats = non_plain_features(p)
        p.meta["non_plain"] = feats
        if wild or not feats or p.meta.get("routed"):
            break
    return p


def _gen_protocol_once(ch, cfg: dict) -> Proto:
    p = Proto()
    cfg = dict(cfg)
    p.gen_cfg = cfg
    cfg["ll1_alternatives"] = not ch.coin(cfg.get("ambiguous_states", 0.25), "spec", "ambiguous-states")
    cfg["adjacent_nullable"] = ch.coin(cfg.get("adjacent_nullable_rate", 0.2), "spec", "adjacent-nullable")
    cfg["reuse_types"] = ch.coin(cfg.get("reuse_types_rate", 0.3), "spec", "reuse-types")
    cfg["ext_to_ext"] = ch.coin(cfg.get("ext_to_ext_rate", 0.5), "spec", "ext-to-ext")
    p.fuzzers = ["Fz"] + (["Fy"] if ch.coin(cfg.get("two_fuzzers", 0.15), "spec", "fy") else [])
    p.externals = ["Ex"] + (["Ey"] if ch.coin(cfg.get("two_externals", 0.45), "spec", "ey") else [])
    if len(p.externals) == 2 and ch.coin(0.25, "spec", "ez"):
        p.externals.append("Ez")
    n_types = ch.rng_range(3, cfg.get("max_types", 7), "spec", "ntypes")
    all_kws = ch.shuffle(KEYWORDS, "spec", "kw")
    kws = all_kws[:n_types]
    # make sure both directions exist
    for i, kw in enumerate(kws):
        name = "m%d" % i
        from_fuzzer = (i % 2 == 0) if i < 2 else bool(ch.draw(2, "spec", "dir"))
        invisible = i >= 2 and len(p.externals) >= 2 and cfg.get("ext_to_ext") and ch.coin(0.4, "spec", "invisible-type")
        if invisible:
            # a message between two external parties: Fandango never sees it (sliced out of the grammar)
            sender = ch.pick(p.externals, "spec", "snd")
            recipient = ch.pick([e for e in p.externals if e != sender], "spec", "rcp")
        elif from_fuzzer:
            sender = ch.pick(p.fuzzers, "spec", "snd")
            recipient = ch.pick(p.externals, "spec", "rcp")
        else:
            sender = ch.pick(p.externals, "spec", "snd")
            recipient = ch.pick(p.fuzzers, "spec", "rcp")
        form = ch.weighted([3, 4, 2, 2], "spec", "form")
        field = "f%d" % i
        m = {"kw": kw, "sender": sender, "recipient": recipient, "form": form, "field": None}
        if form == 0:
            body = ("cat", (("lit", kw), ("lit", "\n")))
        elif form == 1:
            body = ("cat", (("lit", kw + " "), ("nt", field), ("lit", "\n")))
            p.rules[field] = ("rx", G.RX_MENU["d13"][0], "d")
            m["field"] = field
        elif form == 2:
            body = ("cat", (("lit", kw), ("opt", ("cat", (("lit", ":"), ("nt", field)))), ("lit", "\n")))
            p.rules[field] = ("rx", G.RX_MENU["l+"][0], "l")
            m["field"] = field
        else:
            body = ("cat", (("lit", kw + " "), ("rep", ("cat", (("nt", field), ("lit", ","))), 1, 2), ("lit", ";")))
            p.rules[field] = ("rx", G.RX_MENU["d13"][0], "d")
            m["field"] = field
        p.rules[name] = body
        p.msg_types[name] = m
    if ch.coin(cfg.get("prefix_overlap_rate", 0.2), "spec", "prefix-overlap"):
        # two message types of one external party where every text of the first is a proper prefix
        # of a text of the second (<pong> ::= 'PONG\n' next to <pong_ext> ::= 'PONG\n' '+MORE\n'):
        # a complete parse of the short type can still be extended by data that arrives later
        ka, kb = all_kws[n_types], all_kws[n_types + 1]
        snd_ = ch.pick(p.externals, "spec", "overlap-snd")
        rcp_ = ch.pick(p.fuzzers, "spec", "overlap-rcp")
        na, nb = "m%d" % n_types, "m%d" % (n_types + 1)
        p.rules[na] = ("cat", (("lit", ka), ("lit", "\n")))
        p.rules[nb] = ("cat", (("lit", ka), ("lit", "\n"), ("lit", "+" + kb), ("lit", "\n")))
        for n_ in (na, nb):
            p.msg_types[n_] = {"kw": ka, "sender": snd_, "recipient": rcp_, "form": 0, "field": None}
        p.meta["overlap"] = (na, nb)
    routed = None
    if len(p.externals) >= 2 and ch.coin(cfg.get("routed_rate", 0.08), "spec", "routed-request"):
        # one request type that the fuzzer may address to either of two servers, each answering with
        # its own reply type: <Fz:Ex:req> <Ex:Fz:ra> | <Fz:Ey:req> <Ey:Fz:rb>
        req = sorted(n for n, m in p.msg_types.items() if m["sender"] in p.fuzzers)[0]
        base = n_types + 2
        reps = []
        for j, e in enumerate(p.externals[:2]):
            nm = "m%d" % (base + j)
            kw = all_kws[base + j]
            p.rules[nm] = ("cat", (("lit", kw), ("lit", "\n")))
            p.msg_types[nm] = {"kw": kw, "sender": e, "recipient": p.msg_types[req]["sender"], "form": 0, "field": None}
            reps.append(nm)
        routed = (req, reps)
    # numeric-field constraints the peers can knowingly satisfy or violate
    for name, m in p.msg_types.items():
        if m["form"] in (1, 3) and ch.coin(cfg.get("constraint_rate", 0.5), "spec", "cons"):
            k = ch.pick([2, 3, 5], "spec", "mod")
            r = ch.draw(k, "spec", "res")
            p.field_constraints[m["field"]] = ("mod", k, r)
            p.constraints.append("where int(<%s>) %% %d == %d" % (m["field"], k, r))
    # state rules, bottom-up; s0 is <start>
    n_states = ch.rng_range(1, cfg.get("max_states", 3), "spec", "nstates")
    names = ["start"] + ["s%d" % i for i in range(1, n_states)]
    built: list[str] = []
    body_rules = dict(p.rules)
    for name in reversed(names):
        node = _s_expr(ch, p, cfg, list(built), 0)
        if p.nullable(node):
            node = ("cat", (node, _visible_occ(ch, p, cfg))) if node[0] != "cat" else ("cat", node[1] + (_visible_occ(ch, p, cfg),))
        if ch.coin(0.2, "spec", "srec"):
            # right recursion: node | occ <self>
            node = ("alt", (node, ("cat", (_visible_occ(ch, p, cfg), ("nt", name)))))
        p.rules[name] = node
        built.append(name)
    if routed:
        req, reps = routed
        fz = p.msg_types[req]["sender"]
        tail = (("nt", names[1]),) if len(names) > 1 and ch.coin(0.4, "spec", "routed-tail") else ()
        alts = []
        for e, rp in zip(p.externals[:2], reps):
            alts.append(("cat", (("nt", req, fz, e), ("nt", rp, e, fz)) + tail))
            p.meta.setdefault("pairs", set()).add((req, fz, e))
        p.rules["start"] = ("alt", tuple(alts))
        p.meta["routed"] = True
    reach = G.reachable(p)
    p.state_rules = [n for n in names if n in reach]
    ordered = {n: p.rules[n] for n in p.state_rules}
    for name in list(p.msg_types):
        if name not in reach:
            del p.msg_types[name]
    for name, m in p.msg_types.items():
        ordered[name] = body_rules[name]
        if m["field"]:
            ordered[m["field"]] = body_rules[m["field"]]
    p.rules = ordered
    p.field_constraints = {f: c for f, c in p.field_constraints.items() if f in p.rules}
    # cross-message constraint: two numeric fields of different message types must agree
    num = sorted(m["field"] for m in p.msg_types.values() if m["field"] and m["form"] == 1 and m["field"] not in p.field_constraints)
    p.eq_constraints = []
    if len(num) >= 2 and ch.coin(cfg.get("cross_constraint_rate", 0.35), "spec", "cross"):
        a = ch.pick(num, "spec", "cross-a")
        b_ = ch.pick([x for x in num if x != a], "spec", "cross-b")
        p.eq_constraints.append((a, b_))
    p.constraints = ["where int(<%s>) %% %d == %d" % (f, c[1], c[2]) for f, c in p.field_constraints.items()]
    p.constraints += ["where str(<%s>) == str(<%s>)" % ab for ab in p.eq_constraints]
    used_parties = set()
    for m in p.msg_types.values():
        used_parties.add(m["sender"])
        used_parties.add(m["recipient"])
    for (_n, s_, r_) in p.meta.get("pairs", ()):
        used_parties.add(s_)
        used_parties.add(r_)
    p.fuzzers = [x for x in p.fuzzers if x in used_parties]
    p.externals = [x for x in p.externals if x in used_parties]
    return p


# ----------------------------------------------------------------------------
# message texts
# ----------------------------------------------------------------------------
def field_ok(p: Proto, field: str, text: str) -> bool:
    c = p.field_constraints.get(field)
    if c is None:
        return True
    try:
        return int(text) % c[1] == c[2]
    except ValueError:
        return False


def msg_fields(p: Proto, mtype: str, model) -> list:
    """Texts of the field nonterminals inside a message model tree."""
    out = []

    def walk(m):
        if m[0] == "N":
            if m[1] == p.msg_types[mtype]["field"]:
                out.append("".join(G.leaves(m)))
            for c in m[2]:
                walk(c)

    walk(model)
    return out


def msg_satisfies(p: Proto, mtype: str, model) -> bool:
    f = p.msg_types[mtype]["field"]
    if f is None:
        return True
    return all(field_ok(p, f, t) for t in msg_fields(p, mtype, model))


def sample_msg(p: Proto, ch, mtype: str, want_ok: Optional[bool], stream="work"):
    """(text, model) for a message of type mtype; want_ok True/False steers the constraint."""
    last = None
    for _ in range(60):
        model = G.sample(p, ch, mtype, budget=8, stream=stream)
        text = "".join(G.leaves(model))
        ok = msg_satisfies(p, mtype, model)
        last = (text, model, ok)
        if want_ok is None or ok == want_ok:
            return text, model, ok
    return last


def all_fields(p: Proto, models) -> dict:
    """field nt -> list of texts over a list of message model trees."""
    out: dict = {}

    def walk(m):
        if m[0] == "N":
            if m[1] in p.rules and m[1].startswith("f"):
                out.setdefault(m[1], []).append("".join(G.leaves(m)))
            for c in m[2]:
                walk(c)

    for m in models:
        walk(m)
    return out


def history_violations(p: Proto, models) -> list:
    """Constraints (harness-side meaning) violated by a list of message models."""
    fields = all_fields(p, models)
    bad = []
    for f, c in p.field_constraints.items():
        for t in fields.get(f, []):
            try:
                if int(t) % c[1] != c[2]:
                    bad.append("int(<%s>) %% %d == %d fails for %r" % (f, c[1], c[2], t))
            except ValueError:
                bad.append("int(<%s>) raises for %r" % (f, t))
    for a, b in p.eq_constraints:
        for x in fields.get(a, []):
            for y in fields.get(b, []):
                if x != y:
                    bad.append("str(<%s>) == str(<%s>) fails for %r / %r" % (a, b, x, y))
    return bad


def force_field(model, field: str, value: str):
    """Copy of a message model with every occurrence of <field> replaced by ``value``."""
    if model[0] == "T":
        return model
    if model[1] == field:
        return ("N", field, (("T", value),), model[3], model[4])
    return ("N", model[1], tuple(force_field(c, field, value) for c in model[2]), model[3], model[4])


def sample_msg_in_history(p: Proto, ch, mtype: str, want_ok: bool, history_models, stream="work"):
    """Like sample_msg, but aware of the cross-message constraints given the history so far."""
    text, model, ok = sample_msg(p, ch, mtype, True if want_ok else None, stream)
    f = p.msg_types[mtype]["field"]
    partner_vals = []
    if f:
        fields = all_fields(p, history_models)
        for a, b in p.eq_constraints:
            if f == a:
                partner_vals += fields.get(b, [])
            elif f == b:
                partner_vals += fields.get(a, [])
    if want_ok:
        if partner_vals:
            model = force_field(model, f, partner_vals[0])
    else:
        # violate something: prefer the cross constraint when one is in force
        if partner_vals:
            v = partner_vals[0]
            other = str((int(v) + 1) % 1000) if v.isdigit() else "7"
            model = force_field(model, f, other)
        else:
            text2, model2, ok2 = sample_msg(p, ch, mtype, False, stream)
            model = model2
    text = "".join(G.leaves(model))
    ok = not history_violations(p, list(history_models) + [model])
    return text, model, ok


def has_adjacent_nullables(p: Proto) -> bool:
    """Two adjacent nullable items in a concatenation of the grammar *as Fandango sees it* (invisible
    messages are removed by slicing, so they are neither items nor a source of nullability here)."""

    def nullable(n, seen=()) -> bool:
        k = n[0]
        if k == "nt":
            if p.is_msg(n):
                return False
            if n[1] in seen or n[1] not in p.rules:
                return False
            return nullable(p.rules[n[1]], seen + (n[1],))
        if k == "cat":
            return all(nullable(x, seen) for x in n[1] if not p.is_invisible(x))
        if k == "alt":
            return any(nullable(x, seen) for x in n[1])
        if k in ("star", "opt"):
            return True
        if k == "plus":
            return nullable(n[1], seen)
        if k == "rep":
            return n[2] == 0 or nullable(n[1], seen)
        return False

    def walk(n) -> bool:
        k = n[0]
        if k == "cat":
            items = [x for x in n[1] if not p.is_invisible(x)]
            for a, b in zip(items, items[1:]):
                if nullable(a) and nullable(b):
                    return True
            return any(walk(x) for x in items)
        if k == "alt":
            return any(walk(x) for x in n[1])
        if k in ("star", "plus", "opt", "rep"):
            return walk(n[1])
        return False

    return any(walk(p.rules[r]) for r in p.state_rules)


def occurrences(p: Proto) -> list:
    """All message occurrences (sender, recipient, type) of the state rules, sorted."""
    out: set = set()

    def walk(n):
        k = n[0]
        if k == "nt":
            if p.is_msg(n):
                out.add((n[2], n[3], n[1]))
        elif k in ("cat", "alt"):
            for x in n[1]:
                walk(x)
        elif k in ("star", "plus", "opt", "rep"):
            walk(n[1])

    for r in p.state_rules:
        walk(p.rules[r])
    return sorted(out)


def reuses_types(p: Proto) -> bool:
    """Does some message type occur with the same sender but more than one recipient?  (That is
    the situation in which Fandango's ForecastingNonTerminals, keyed by message symbol per
    sender, merges packets that belong to different occurrences.)"""
    pairs: dict = {}

    def walk(n):
        k = n[0]
        if k == "nt":
            if p.is_msg(n):
                pairs.setdefault((n[1], n[2]), set()).add(n[3])
        elif k in ("cat", "alt"):
            for x in n[1]:
                walk(x)
        elif k in ("star", "plus", "opt", "rep"):
            walk(n[1])

    for r in p.state_rules:
        walk(p.rules[r])
    return any(len(v) > 1 for v in pairs.values())


def non_plain_features(p: Proto) -> list:
    """Features that put a protocol grammar outside the *plain* class on which Fandango's forecaster
    is expected to be exact.  (Outside it, several distinct forecaster/parser defects are known; the
    harness names the feature it can establish structurally.)  Invisible messages are ignored, as
    slicing removes them."""
    feats: list = []

    def nullable(n, seen=()) -> bool:
        k = n[0]
        if k == "nt":
            if p.is_msg(n):
                return False
            if n[1] in seen or n[1] not in p.rules:
                return False
            return nullable(p.rules[n[1]], seen + (n[1],))
        if k == "cat":
            return all(nullable(x, seen) for x in n[1] if not p.is_invisible(x))
        if k == "alt":
            return any(nullable(x, seen) for x in n[1])
        if k in ("star", "opt"):
            return True
        if k == "plus":
            return nullable(n[1], seen)
        if k == "rep":
            return n[2] == 0 or nullable(n[1], seen)
        return False

    def first(n, seen=()) -> frozenset:
        k = n[0]
        if k == "nt":
            if p.is_msg(n):
                return frozenset() if p.is_invisible(n) else frozenset([(n[2], n[1])])
            if n[1] in seen or n[1] not in p.rules:
                return frozenset()
            return first(p.rules[n[1]], seen + (n[1],))
        if k == "cat":
            out = set()
            for x in n[1]:
                if p.is_invisible(x):
                    continue
                out |= first(x, seen)
                if not nullable(x):
                    break
            return frozenset(out)
        if k == "alt":
            out = set()
            for x in n[1]:
                out |= first(x, seen)
            return frozenset(out)
        return first(n[1], seen)

    def starts_nullable(n) -> bool:
        if n[0] == "cat":
            items = [x for x in n[1] if not p.is_invisible(x)]
            return bool(items) and nullable(items[0])
        return nullable(n)

    def walk(n):
        k = n[0]
        if k == "cat":
            items = [x for x in n[1] if not p.is_invisible(x)]
            for i, a in enumerate(items[:-1]):
                if nullable(a):
                    if nullable(items[i + 1]):
                        feats.append("adjacent-nullable-items")
                    rest_first = set()
                    for b in items[i + 1 :]:
                        rest_first |= first(b)
                        if not nullable(b):
                            break
                    if first(a) & rest_first:
                        feats.append("nullable-item-before-same-first-message")
                elif a[0] in ("plus", "rep", "star"):
                    rest_first = set()
                    for b in items[i + 1 :]:
                        rest_first |= first(b)
                        if not nullable(b):
                            break
                    if first(a) & rest_first:
                        feats.append("repetition-before-same-first-message")
            for x in items:
                walk(x)
        elif k == "alt":
            fs = [first(x) for x in n[1]]
            for i in range(len(fs)):
                for j in range(i + 1, len(fs)):
                    if fs[i] & fs[j]:
                        feats.append("alternatives-share-first-message")
            if any(starts_nullable(x) for x in n[1]):
                feats.append("alternative-branch-starts-nullable")
            for x in n[1]:
                walk(x)
        elif k in ("star", "plus", "opt", "rep"):
            walk(n[1])

    for r in p.state_rules:
        walk(p.rules[r])
    if reuses_types(p):
        feats.append("same-sender-type-reuse")
    out = []
    for f_ in feats:
        if f_ not in out:
            out.append(f_)
    return out
