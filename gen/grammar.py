"""SpecGen: grammars as a small AST the harness owns.

The AST -- not Fandango's grammar IR -- is the source of truth for the oracles.
Specs are *printed* to .fan text and go through Fandango's real front end.

Node forms (plain tuples, hashable, printable):
    ("lit", value)            value: str | bytes
    ("bit", 0|1)
    ("rx", pattern, cls)      pattern: str | bytes (python regex), cls: key of RX_MENU
    ("nt", name)              reference to rule <name>
    ("cat", (items...))
    ("alt", (items...))
    ("star", x) ("plus", x) ("opt", x)
    ("rep", x, lo, hi)        hi None = open ended  ({lo,})
    ("crep", x, expr)         computed repetition {expr}; expr is .fan text
Invariants kept by the generator:
    * every nonterminal productive and reachable
    * no nullable body under * / + / {n,}   (Fandango's parser does not terminate there)
    * no left recursion (prefix-mode parsing does not terminate there)
    * unless cfg["ambiguous_regex"], a regex terminal is never directly followed by
      something that can start with a character of its own class (Fandango's scanner
      only tries the greedy match of a regex -- listed known finding of C13/C05)
"""

from __future__ import annotations

import re
from typing import Any, Optional

# ----------------------------------------------------------------------------
# regex menu: pattern, character class, sampler alphabet, min/max length
# ----------------------------------------------------------------------------
RX_MENU = {
    "d13": (r"[0-9]{1,3}", "d", "0123456789", 1, 3),
    "d+": (r"[0-9]+", "d", "0123456789", 1, 4),
    "l+": (r"[a-d]+", "l", "abcd", 1, 4),
    "l2": (r"[a-d]{2}", "l", "abcd", 2, 2),
    "x*": (r"x*", "x", "x", 0, 3),
    "w": (r"[e-h][i-k]?", "w", None, 1, 2),
    "c13": (r"[1-3]", "c", "123", 1, 1),
    # a partial match can run ahead of the last complete match ("3." is no match, "3" and "3.2" are)
    "dec": (r"[0-9]+(\.[0-9]+)?", "d", None, 1, 5),
}
RX_MENU_BYTES = {
    "B1": (rb"[\x00-\x1f]", "B", bytes(range(0, 0x20)), 1, 1),
    "B+": (rb"[\x80-\x8f]+", "C", bytes(range(0x80, 0x90)), 1, 3),
    "Bd": (rb"[0-9]{1,2}", "d", b"0123456789", 1, 2),
}
LIT_ALPHABET = "ABCDEFGHJKLMNPQRSTUVWYZ;,:-_!#=+/"
LIT_UTF8 = ["é", "ß", "€", "Ω"]
LIT_BYTES = [b"\xff", b"\xfe\x01", b"\x00", b"\xc3", b"AB", b"\x7f", b"Q", b"\xa9\xa9"]


class Gram:
    def __init__(self, mode: str):
        self.mode = mode  # "text" | "bytes" | "bits"
        self.rules: dict[str, Any] = {}  # name -> node, insertion order = print order
        self.generators: dict[str, tuple[str, tuple[str, ...]]] = {}  # name -> (expr text, deps)
        self.start = "start"
        self.py_prelude: list[str] = []
        self.constraints: list[str] = []  # "where ..." lines (text)
        self.meta: dict = {}

    # -- analysis -------------------------------------------------------------
    def nullable(self, node, seen=()) -> bool:
        k = node[0]
        if k == "lit":
            return len(node[1]) == 0
        if k == "bit":
            return False
        if k == "rx":
            return re.fullmatch(node[1], node[1][:0]) is not None
        if k == "nt":
            if node[1] in seen or node[1] not in self.rules:
                return False
            return self.nullable(self.rules[node[1]], seen + (node[1],))
        if k == "cat":
            return all(self.nullable(x, seen) for x in node[1])
        if k == "alt":
            return any(self.nullable(x, seen) for x in node[1])
        if k in ("star", "opt"):
            return True
        if k == "plus":
            return self.nullable(node[1], seen)
        if k == "rep":
            return node[2] == 0 or self.nullable(node[1], seen)
        if k == "crep":
            return True
        raise ValueError(k)

    def first_last(self, node, which: int, seen=()) -> frozenset:
        """Classes of regex terminals that can start (which=0) / end (which=1) a word of node."""
        k = node[0]
        if k in ("lit", "bit"):
            return frozenset()
        if k == "rx":
            return frozenset([node[2]])
        if k == "nt":
            if node[1] in seen or node[1] not in self.rules:
                return frozenset()
            return self.first_last(self.rules[node[1]], which, seen + (node[1],))
        if k == "cat":
            out = set()
            items = node[1] if which == 0 else tuple(reversed(node[1]))
            for x in items:
                out |= self.first_last(x, which, seen)
                if not self.nullable(x):
                    break
            return frozenset(out)
        if k == "alt":
            out = set()
            for x in node[1]:
                out |= self.first_last(x, which, seen)
            return frozenset(out)
        return self.first_last(node[1], which, seen)

    def min_size(self, node, memo=None, seen=()) -> int:
        """Number of tree nodes of a smallest derivation (used to steer samplers)."""
        k = node[0]
        if k in ("lit", "bit", "rx"):
            return 1
        if k == "nt":
            if node[1] in seen:
                return 10**6
            return 1 + self.min_size(self.rules[node[1]], memo, seen + (node[1],))
        if k == "cat":
            return sum(self.min_size(x, memo, seen) for x in node[1])
        if k == "alt":
            return min(self.min_size(x, memo, seen) for x in node[1])
        if k in ("star", "opt", "crep"):
            return 0
        if k == "plus":
            return self.min_size(node[1], memo, seen)
        if k == "rep":
            return node[2] * self.min_size(node[1], memo, seen)
        raise ValueError(k)

    # -- printing ---------------------------------------------------------------
    def to_fan(self, with_constraints: bool = True) -> str:
        lines = []
        # declaration order: meta["cons_first"] constraints are printed before the rules (their
        # symbols are defined further down), the rest after them
        n_first = int(self.meta.get("cons_first", 0)) if with_constraints else 0
        for c in self.constraints[:n_first]:
            lines.append(c)
        for name, node in self.rules.items():
            s = "<%s> ::= %s" % (name, fan(node, top=True))
            if name in self.generators:
                s += " := " + self.generators[name][0]
            lines.append(s)
        if with_constraints:
            for c in self.constraints[n_first:]:
                lines.append(c)
        lines.extend(self.py_prelude)
        return "\n".join(lines) + "\n"


def fan_lit(v) -> str:
    if isinstance(v, bytes):
        return "b'" + "".join("\\x%02x" % b for b in v) + "'"
    out = []
    for c in v:
        if c == "'":
            out.append("\\'")
        elif c == "\\":
            out.append("\\\\")
        elif c == "\n":
            out.append("\\n")
        else:
            out.append(c)
    return "'" + "".join(out) + "'"


def fan_rx(p) -> str:
    if isinstance(p, bytes):
        return "rb'" + p.decode("latin-1") + "'"
    return "r'" + p + "'"


def fan(node, top: bool = False) -> str:
    k = node[0]
    if k == "lit":
        return fan_lit(node[1])
    if k == "bit":
        return str(node[1])
    if k == "rx":
        return fan_rx(node[1])
    if k == "nt":
        if len(node) > 2 and node[2]:
            if len(node) > 3 and node[3]:
                return "<%s:%s:%s>" % (node[2], node[3], node[1])
            return "<%s:%s>" % (node[2], node[1])
        return "<%s>" % node[1]
    if k == "cat":
        s = " ".join(fan(x) for x in node[1])
        return s if top else "(" + s + ")"
    if k == "alt":
        s = " | ".join(fan(x, top=False) if x[0] != "cat" else " ".join(fan(y) for y in x[1]) for x in node[1])
        return s if top else "(" + s + ")"
    inner = fan(node[1])
    if node[1][0] in ("star", "plus", "opt", "rep", "crep"):
        inner = "(" + inner + ")"
    if k == "star":
        return inner + "*"
    if k == "plus":
        return inner + "+"
    if k == "opt":
        return inner + "?"
    if k == "rep":
        lo, hi = node[2], node[3]
        if hi is None:
            return "%s{%d,}" % (inner, lo)
        if lo == hi:
            return "%s{%d}" % (inner, lo)
        return "%s{%d,%d}" % (inner, lo, hi)
    if k == "crep":
        return "%s{%s}" % (inner, node[2])
    raise ValueError(k)


# ----------------------------------------------------------------------------
# random grammar generation
# ----------------------------------------------------------------------------
def _lit(ch, g: Gram, cfg):
    if g.mode == "bytes":
        return ("lit", ch.pick(LIT_BYTES, "spec", "lit"))
    n = 1 + ch.weighted([6, 3, 1], "spec", "litlen")
    s = "".join(ch.pick(LIT_ALPHABET, "spec", "litch") for _ in range(n))
    if cfg.get("utf8") and ch.coin(0.25, "spec", "utf8"):
        s += ch.pick(LIT_UTF8, "spec", "utf8ch")
    return ("lit", s)


def _rx(ch, g: Gram, cfg):
    if g.mode == "bytes":
        key = ch.pick(sorted(RX_MENU_BYTES), "spec", "rx")
        m = RX_MENU_BYTES[key]
    else:
        keys = sorted(RX_MENU)
        if not cfg.get("nullable_regex", True):
            keys = [x for x in keys if x != "x*"]
        key = ch.pick(keys, "spec", "rx")
        m = RX_MENU[key]
    return ("rx", m[0], m[1])


def _sep(ch, g: Gram):
    if g.mode == "bytes":
        return ("lit", b"\xff")
    return ("lit", ch.pick(";,:-", "spec", "sep"))


def _atom(ch, g: Gram, cfg, avail: list[str], depth: int):
    w = [4, 3 if cfg.get("regex", True) else 0, 5 if avail else 0, 2 if depth < cfg.get("max_depth", 2) else 0]
    c = ch.weighted(w, "spec", "atom")
    if c == 0:
        return _lit(ch, g, cfg)
    if c == 1:
        return _rx(ch, g, cfg)
    if c == 2:
        return ("nt", ch.pick(avail, "spec", "ref"))
    return _expr(ch, g, cfg, avail, depth + 1)


def _fix_adjacent(ch, g: Gram, cfg, items: list) -> list:
    """Insert separators where a regex could end in more than one place."""
    if cfg.get("ambiguous_regex"):
        return items
    out = [items[0]]
    for x in items[1:]:
        last = g.first_last(("cat", tuple(out)), 1)
        first = g.first_last(x, 0)
        if last & first or ("x" in last) or ("w" in last and first):
            out.append(_sep(ch, g))
        out.append(x)
    return out


def _body_ok_for_iteration(ch, g: Gram, cfg, body):
    """Make a repetition body non-nullable and self-adjacent-safe."""
    if g.nullable(body):
        body = ("cat", (body, _sep(ch, g)))
    if not cfg.get("ambiguous_regex"):
        last = g.first_last(body, 1)
        first = g.first_last(body, 0)
        if last & first or "x" in last or ("w" in last and first):
            body = ("cat", (body, _sep(ch, g)))
    return body


def _lenrep(ch, g: Gram, cfg, avail, depth):
    """<cK> '=' body{int(<cK>)}: a computed repetition with its own count field."""
    k = len([n for n in g.rules if n.startswith("c")]) + len(g.meta.setdefault("pending_counts", []))
    cname = "c%d" % (k + 1)
    g.meta["pending_counts"].append(cname)
    body = _body_ok_for_iteration(ch, g, cfg, _atom(ch, g, cfg, avail, depth + 1))
    if body[0] in ("star", "plus", "opt", "rep", "crep"):
        body = ("cat", (body, _sep(ch, g)))
    return ("cat", (("nt", cname), ("lit", "="), ("crep", body, "int(<%s>)" % cname), _sep(ch, g)))


def _item(ch, g: Gram, cfg, avail, depth):
    if g.mode == "text" and cfg.get("computed_reps") and depth == 0 and ch.coin(0.12, "spec", "lenrep"):
        return _lenrep(ch, g, cfg, avail, depth)
    a = _atom(ch, g, cfg, avail, depth)
    if not cfg.get("repetitions", True):
        return a
    c = ch.weighted([10, 2, 2, 3, 2, 2, 1], "spec", "postfix")
    if c == 0:
        return a
    if c == 1:
        return ("star", _body_ok_for_iteration(ch, g, cfg, a))
    if c == 2:
        return ("plus", _body_ok_for_iteration(ch, g, cfg, a))
    if c == 3:
        a2 = a
        if not cfg.get("ambiguous_regex"):
            pass
        return ("opt", a2)
    if c == 4:
        lo = ch.rng_range(0, 2, "spec", "replo")
        hi = lo + ch.rng_range(0 if lo > 0 else 1, 2, "spec", "rephi")
        return ("rep", _body_ok_for_iteration(ch, g, cfg, a), lo, hi)
    if c == 5:
        n = ch.rng_range(1, 3, "spec", "repn")
        return ("rep", _body_ok_for_iteration(ch, g, cfg, a), n, n)
    lo = ch.rng_range(0, 2, "spec", "replo")
    return ("rep", _body_ok_for_iteration(ch, g, cfg, a), lo, None)


def _cat(ch, g: Gram, cfg, avail, depth):
    n = 1 + ch.weighted([3, 4, 3, 1], "spec", "catlen")
    items = [_item(ch, g, cfg, avail, depth) for _ in range(n)]
    items = _fix_adjacent(ch, g, cfg, items)
    if len(items) == 1:
        return items[0]
    return ("cat", tuple(items))


def _expr(ch, g: Gram, cfg, avail, depth):
    n = 1 + ch.weighted([5, 3, 1], "spec", "altlen")
    alts = [_cat(ch, g, cfg, avail, depth) for _ in range(n)]
    if len(alts) == 1:
        return alts[0]
    # drop structurally identical alternatives
    uniq = []
    for a in alts:
        if a not in uniq:
            uniq.append(a)
    if len(uniq) == 1:
        return uniq[0]
    return ("alt", tuple(uniq))


def gen_grammar(ch, cfg: dict) -> Gram:
    """Random grammar; rules are generated bottom-up so references are to known rules."""
    modes = cfg.get("modes", ["text"])
    mode = ch.pick(modes, "spec", "mode")
    g = Gram(mode)
    n_rules = ch.rng_range(cfg.get("min_rules", 2), cfg.get("max_rules", 5), "spec", "nrules")
    names = ["start"] + ["n%d" % i for i in range(1, n_rules)]
    built: list[str] = []
    tmp: dict[str, Any] = {}
    if mode == "bits":
        # bit-level building blocks: <bit>, nibbles and bytes made of bits
        g.rules["bit"] = ("alt", (("bit", 0), ("bit", 1)))
        built.append("bit")
    for name in reversed(names):
        if mode == "bits":
            node = _bits_rule(ch, g, cfg, built)
        else:
            node = _expr(ch, g, cfg, list(built), 0)
            if cfg.get("recursion", True) and ch.coin(cfg.get("recursion_rate", 0.15), "spec", "recursive") and not g.nullable(node):
                # guarded right/centre recursion: base | LIT <self> [LIT]
                open_ = _lit(ch, g, cfg)
                g.rules[name] = node  # temporarily, for analysis
                tail = (_lit(ch, g, cfg),) if ch.coin(0.5, "spec", "rectail") else ()
                node = ("alt", (node, ("cat", (open_, ("nt", name)) + tail)))
        g.rules[name] = node
        built.append(name)
    for cname in g.meta.pop("pending_counts", []):
        g.rules[cname] = ("rx", RX_MENU["c13"][0], "c")
    # reorder: start first
    g.rules = {n: g.rules[n] for n in (["start"] + [x for x in g.rules if x != "start"])}
    # reachability: make start reference every otherwise unreachable rule
    while True:
        reach = reachable(g)
        missing = [n for n in g.rules if n not in reach]
        if not missing:
            break
        n = missing[0]
        st = g.rules["start"]
        items = list(st[1]) if st[0] == "cat" else [st]
        items.append(_sep(ch, g) if mode != "bits" else ("lit", b"\xff"))
        items.append(("nt", n) if n != "bit" else ("rep", ("nt", "bit"), 8, 8))
        g.rules["start"] = ("cat", tuple(items))
    return g


def _bits_rule(ch, g: Gram, cfg, built):
    """Byte-aligned rules over bits and byte literals."""
    items = []
    n = ch.rng_range(1, 3, "spec", "bititems")
    for _ in range(n):
        c = ch.weighted([3, 3, 2, 2, 2], "spec", "bitform")
        if c == 0:
            items.append(("rep", ("nt", "bit"), 8, 8))
        elif c == 1:
            fixed = tuple(("bit", ch.draw(2, "spec", "b")) for _ in range(4))
            items.append(("cat", fixed + (("rep", ("nt", "bit"), 4, 4),)))
        elif c == 2:
            items.append(("lit", ch.pick(LIT_BYTES, "spec", "lit")))
        elif c == 3:
            refs = [b for b in built if b != "bit"]
            if refs:
                items.append(("nt", ch.pick(refs, "spec", "ref")))
            else:
                items.append(("rep", ("nt", "bit"), 8, 8))
        else:
            items.append(("opt", ("cat", tuple(("bit", ch.draw(2, "spec", "b")) for _ in range(8)))))
    if len(items) == 1 and items[0][0] == "opt":
        items.append(("lit", b"\x00"))
    return ("cat", tuple(items)) if len(items) > 1 else items[0]


def refs(node, out=None) -> set:
    out = set() if out is None else out
    k = node[0]
    if k == "nt":
        out.add(node[1])
    elif k in ("cat", "alt"):
        for x in node[1]:
            refs(x, out)
    elif k in ("star", "plus", "opt", "rep", "crep"):
        refs(node[1], out)
    return out


def reachable(g: Gram, start: Optional[str] = None) -> set:
    seen = set()
    work = [start or g.start]
    while work:
        n = work.pop()
        if n in seen:
            continue
        seen.add(n)
        work.extend(refs(g.rules[n]))
        if n in g.generators:
            work.extend(g.generators[n][1])
    return seen


# ----------------------------------------------------------------------------
# sampling words together with their derivation (model trees)
#   model tree: ("N", name, (children...), sender, recipient) | ("T", value)
# ----------------------------------------------------------------------------
def sample_rx(ch, node, stream="work"):
    pat = node[1]
    menu = RX_MENU_BYTES if isinstance(pat, bytes) else RX_MENU
    for key, m in menu.items():
        if m[0] == pat:
            if key == "dec":
                s = "".join(ch.pick("0123456789", stream, "rxch") for _ in range(ch.rng_range(1, 2, stream, "rxlen")))
                if ch.draw(2, stream, "rxdec"):
                    s += "." + "".join(ch.pick("0123456789", stream, "rxch") for _ in range(ch.rng_range(1, 2, stream, "rxlen")))
                return s
            if key == "w":
                s = ch.pick("efgh", stream, "rxw")
                if ch.draw(2, stream, "rxw2"):
                    s += ch.pick("ijk", stream, "rxw3")
                return s
            n = ch.rng_range(m[3], m[4], stream, "rxlen")
            if isinstance(pat, bytes):
                return bytes(ch.pick(m[2], stream, "rxch") for _ in range(n))
            return "".join(ch.pick(m[2], stream, "rxch") for _ in range(n))
    raise ValueError(pat)


def sample(g: Gram, ch, start: Optional[str] = None, budget: int = 30, stream: str = "work"):
    """Return (model_tree, leaves) for a random word derivable from <start>."""
    state = {"budget": budget, "empties": 0}

    def expand(node, out: list):
        k = node[0]
        if k == "lit":
            out.append(("T", node[1]))
        elif k == "bit":
            out.append(("T", node[1]))
        elif k == "rx":
            out.append(("T", sample_rx(ch, node, stream)))
        elif k == "nt":
            state["budget"] -= 1
            kids: list = []
            expand(g.rules[node[1]], kids)
            if not kids:
                state["empties"] += 1
            out.append(("N", node[1], tuple(kids), node[2] if len(node) > 2 else None, node[3] if len(node) > 3 else None))
        elif k == "cat":
            for x in node[1]:
                expand(x, out)
        elif k == "alt":
            if state["budget"] <= 0:
                sizes = [g.min_size(x) for x in node[1]]
                expand(node[1][sizes.index(min(sizes))], out)
            else:
                expand(ch.pick(node[1], stream, "alt"), out)
        elif k in ("star", "plus", "opt", "rep", "crep"):
            if k == "star":
                lo, hi = 0, 3
            elif k == "plus":
                lo, hi = 1, 3
            elif k == "opt":
                lo, hi = 0, 1
            elif k == "rep":
                lo, hi = node[2], (node[3] if node[3] is not None else node[2] + 2)
            else:
                # computed repetition {int(<cnt>)}: the count field was expanded just before
                m_ = re.search(r"<([A-Za-z0-9_]+)>", node[2])
                cnt = None
                for prev in reversed(out):
                    if prev[0] == "N" and m_ and prev[1] == m_.group(1):
                        cnt = int("".join(str(x) for x in leaves(prev)))
                        break
                lo = hi = cnt if cnt is not None else 1
            n = lo if (state["budget"] <= 0 or lo == hi) else ch.rng_range(lo, hi, stream, "reps")
            if n == 0:
                state["empties"] += 1
            for _ in range(n):
                expand(node[1], out)
        else:
            raise ValueError(k)

    top: list = []
    expand(("nt", start or g.start), top)
    g.meta["last_sample_empties"] = state["empties"]
    return top[0]


def leaves(model) -> list:
    if model[0] == "T":
        return [model[1]]
    out = []
    for c in model[2]:
        out.extend(leaves(c))
    return out


def word_of(model, mode: str):
    """Serialisation of a model tree in the grammar's mode (harness-side fold)."""
    lv = leaves(model)
    if mode == "text":
        return "".join(lv)
    bits: list[int] = []
    for v in lv:
        if isinstance(v, int):
            bits.append(v)
        else:
            b = v.encode("utf-8") if isinstance(v, str) else v
            for byte in b:
                bits.extend((byte >> i) & 1 for i in range(7, -1, -1))
    assert len(bits) % 8 == 0, "unaligned sample"
    return bytes(int("".join(map(str, bits[i : i + 8])), 2) for i in range(0, len(bits), 8))


def model_size(model) -> int:
    if model[0] == "T":
        return 1
    return 1 + sum(model_size(c) for c in model[2])
