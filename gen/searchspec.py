"""Specs for SearchSim: a random grammar plus typed fields, constraint templates with a
harness-side meaning, computed repetitions and generators wired to the ledger.

Layout of <start>:  <fa> ':' <fb> ':' <fc> ':' (<fd> ',')* '|' <lst_1> ... <lst_r> '|' <g_1> ... '|' <body>
  <fa>,<fb> ::= r'[0-9]{1,3}'      numeric fields
  <fc>      ::= r'[a-d]+'          text field
  <fd>      ::= r'[0-9]{1,3}'      repeated numeric field (several matches: forall / exists)
  <fe>      ::= r'[0-9a]'          int() raises on 'a'      (raising templates)
  <fz>      ::= r'[0-9]'           1 // int() raises on '0' (raising templates)
  <lst_k>   ::= <cnt_k> '=' <it_k>{int(<cnt_k>)} ';'   computed repetition (one repetition-bound constraint each)
  <g_k>     ::= r'[0-9]{2,4}' := _vb.gen('g_k')        generator field, value decided by the ledger
  <body>    a random SpecGen grammar (gen.grammar) in text mode
"""

from __future__ import annotations

from typing import Any, Callable

from . import grammar as G

INEXACT_PAIRS = [(1, 5), (5, 1), (2, 5), (5, 2), (2, 7), (7, 2), (1, 6), (6, 1), (3, 7), (7, 3), (4, 5), (5, 4)]


def _texts(model, name) -> list:
    out = []

    def walk(m):
        if m[0] == "N":
            if m[1] == name:
                out.append("".join(str(x) for x in G.leaves(m)))
            for c in m[2]:
                walk(c)

    walk(model)
    return out


def _all(model, names, fn) -> bool:
    """forall combinations of matches (cartesian product), raising = unsatisfied."""
    import itertools

    lists = [_texts(model, n) for n in names]
    for combo in itertools.product(*lists):
        try:
            if not fn(*combo):
                return False
        except Exception:
            return False
    return True


class SearchSpec(G.Gram):
    def __init__(self):
        super().__init__("text")
        self.cons: list[dict] = []  # {text, pred(model)->bool, kind, raising}
        self.h = 0
        self.r = 0
        self.gen_fields: list[str] = []
        self.extra_constraints: list[str] = []

    def harness_accepts(self, model) -> bool:
        for c in self.cons:
            if not c["pred"](model):
                return False
        # computed repetitions: count of items equals the count field
        for k in range(1, self.r + 1):
            for lst in _nodes(model, "lst_%d" % k):
                cnt = "".join(G.leaves(lst[2][0])) if lst[2] else ""
                items = [c for c in lst[2] if c[0] == "N" and c[1] == "it_%d" % k]
                try:
                    per = getattr(self, "crep_per_iteration", {}).get(k, 1)
                    extra_ = getattr(self, "crep_range", {}).get(k, 0)
                    if not (int(cnt) * per <= len(items) <= (int(cnt) + extra_) * per):
                        return False
                except ValueError:
                    return False
        return True


def _nodes(model, name) -> list:
    out = []

    def walk(m):
        if m[0] == "N":
            if m[1] == name:
                out.append(m)
            for c in m[2]:
                walk(c)

    walk(model)
    return out


PAIR_TEMPLATES = [
    ("<pr> == 'c+b' or <qa> == 'b'", ["pr", "qa"], lambda a, b: a == "c+b" or b == "b", "nested-eq"),
    ("<pr> == 'a-b' and str(<qb>) == 'b'", ["pr", "qb"], lambda a, b: a == "a-b" and b == "b", "nested-eq"),
    ("str(<qa>) == str(<qb>)", ["qa", "qb"], lambda a, b: a == b, "eq"),
    ("<pr> == 'b+c' or <qb> == 'b' or <qa> == 'c'", ["pr", "qb", "qa"], lambda a, b, c: a == "b+c" or b == "b" or c == "c", "nested-eq"),
]


def _templates(ch, allow_raising: bool):
    """(text, names, fn, kind) factories; 0 = the simplest."""
    k = ch.pick([2, 3, 5], "spec", "mod")
    r = ch.draw(k, "spec", "res")
    fld = ch.pick(["fa", "fb", "fd"], "spec", "fld")
    t = [
        ("int(<%s>) %% %d == %d" % (fld, k, r), [fld], lambda a, k=k, r=r: int(a) % k == r, "mod"),
        ("int(<fa>) <= int(<fb>)", ["fa", "fb"], lambda a, b: int(a) <= int(b), "cmp"),
        ("str(<fc>).startswith('a')", ["fc"], lambda a: a.startswith("a"), "expr"),
        ("len(str(<fc>)) > 1", ["fc"], lambda a: len(a) > 1, "expr"),
        ("str(<fa>) == str(<fb>)", ["fa", "fb"], lambda a, b: a == b, "eq"),
        ("int(<fa>) % 2 == 0 and int(<fb>) % 2 == 1", ["fa", "fb"], lambda a, b: int(a) % 2 == 0 and int(b) % 2 == 1, "and"),
        ("int(<fa>) > 500 or int(<fb>) > 500", ["fa", "fb"], lambda a, b: int(a) > 500 or int(b) > 500, "or"),
        ("not (int(<fd>) %% %d == %d)" % (k, r), ["fd"], lambda a, k=k, r=r: not (int(a) % k == r), "not"),
        ("int(<fd>) < 900", ["fd"], lambda a: int(a) < 900, "cmp"),
        ("int(<fa>) != int(<fb>) + 1", ["fa", "fb"], lambda a, b: int(a) != int(b) + 1, "cmp"),
        # quantifiers: a bound symbol next to a free one; the predicate gets the whole model (see QUANT)
        ("forall <x> in <fd>: int(<x>) <= int(<fa>)", "QUANT", lambda m: all(int(x) <= int(a) for a in _texts(m, "fa") for x in _texts(m, "fd")), "forall-free"),
        ("exists <x> in <fd>: int(<x>) >= int(<fb>)", "QUANT", lambda m: all(any(int(x) >= int(b) for x in _texts(m, "fd")) for b in _texts(m, "fb")), "exists-free"),
        ("forall <x> in <fd>: int(<x>) %% %d == %d" % (k, r), "QUANT", lambda m, k=k, r=r: all(int(x) % k == r for x in _texts(m, "fd")), "forall"),
        ("forall <fd> in <fds>.<fd>: int(<fd>) < 900", "QUANT", lambda m: all(int(x) < 900 for x in _texts(m, "fd")), "forall-selfbound"),
        ("exists <d> in <fds>.<fd>: int(<d>) >= int(<fb>)", "QUANT", lambda m: all(any(int(x) >= int(b) for x in _texts(m, "fd")) for b in _texts(m, "fb")), "exists-selector-free"),
        ("int(<fa>) <= LIM", ["fa"], lambda a: int(a) <= 900, "python-global"),
        ("all(int(str(LIM)) <= 999 for LIM in *<fds>.<fd>)", "QUANT", lambda m: True, "comprehension-shadows-global"),
        ("str(<ra>) == str(<rb>)", ["ra", "rb"], lambda a, b: a == b, "eq-bounded-repetitions"),
        ("forall <x> in <fd>: exists <y> in <fd>: int(<y>) >= int(<x>) and int(<x>) <= int(<fa>)", "QUANT", lambda m: all(any(int(y) >= int(x) and int(x) <= int(a) for y in _texts(m, "fd")) for a in _texts(m, "fa") for x in _texts(m, "fd")), "forall-exists-free"),
    ]
    if allow_raising:
        t += [
            ("int(<fe>) >= 0", ["fe"], lambda a: int(a) >= 0, "raising-cmp"),
            ("1 // int(<fz>) >= 0", ["fz"], lambda a: 1 // int(a) >= 0, "raising-cmp"),
            ("str(int(<fe>)) != 'x'", ["fe"], lambda a: str(int(a)) != "x", "raising-expr"),
            ("str(int(<fe>)).isdigit()", ["fe"], lambda a: str(int(a)).isdigit(), "raising-plain-expr"),
            ("int(<row>[2]) >= 0", ["row"], lambda a: int(a[2]) >= 0, "raising-index"),
            ("int(<row>[0]) < 10", ["row"], lambda a: int(a[0]) < 10, "index"),
        ]
    return t


def gen_searchspec(ch, cfg: dict) -> SearchSpec:
    s = SearchSpec()
    # ---- (h, r): the number of hard constraints and of computed repetitions ----------
    if ch.coin(cfg.get("inexact_pair_rate", 0.35), "spec", "inexact"):
        h, r = ch.pick(INEXACT_PAIRS, "spec", "hr")
    else:
        h = ch.rng_range(0, cfg.get("max_h", 6), "spec", "h")
        r = ch.rng_range(0, cfg.get("max_r", 3), "spec", "r")
    s.h, s.r = h, r
    allow_raising = ch.coin(cfg.get("raising_rate", 0.3), "spec", "raising")
    # ---- body grammar ------------------------------------------------------------
    body = G.gen_grammar(ch, dict(cfg.get("grammar", {}), modes=["text"], max_rules=cfg.get("body_rules", 3), min_rules=1, utf8=True, ambiguous_regex=False))
    items = [("nt", "fa"), ("lit", ":"), ("nt", "fb"), ("lit", ":"), ("nt", "fc"), ("lit", ":"), ("nt", "fds"), ("lit", "|"), ("nt", "ra"), ("lit", "^"), ("nt", "rb"), ("lit", "|")]
    if allow_raising:
        # several occurrences: a raising combination next to satisfied ones
        items += [("rep", ("cat", (("nt", "fe"), ("lit", "."))), 1, 3), ("rep", ("cat", (("nt", "fz"), ("lit", "."))), 1, 3), ("nt", "row"), ("lit", "|")]
    for k in range(1, r + 1):
        if ch.coin(cfg.get("optional_crep_rate", 0.3), "spec", "crep-in-alternative"):
            # the computed repetition sits in one alternative only: trees that take the other one
            # do not contain it at all (its bounds constraint has nothing to count there)
            items.append(("alt", (("nt", "lst_%d" % k), ("lit", "%"))))
        else:
            items.append(("nt", "lst_%d" % k))
    n_gen = ch.weighted([5, 3, 2], "spec", "ngen") if cfg.get("generators", True) else 0
    if n_gen:
        items.append(("lit", "|"))
    for k in range(1, n_gen + 1):
        items.append(("nt", "g_%d" % k))
    # two records of one shape, each holding a parameterless generated field with inner structure;
    # an equality constraint makes the repair step copy one record into the other
    with_grec = bool(n_gen) and ch.coin(cfg.get("gen_record_rate", 0.45), "spec", "gen-record")
    if with_grec:
        items += [("nt", "hd"), ("lit", ";"), ("nt", "tl"), ("lit", "!")]
    n_dep = ch.weighted([4, 3, 2], "spec", "ndep") if cfg.get("generators", True) else 0
    for k in range(1, n_dep + 1):
        items.append(("nt", "d_%d" % k))
        items.append(("lit", "_"))
    with_many = ch.coin(cfg.get("many_matches_rate", 0.25), "spec", "many-matches")
    if with_many:
        # one comparison constraint evaluated on 6..11 nodes of one tree (a mean over k values)
        items += [("nt", "mm"), ("lit", "|")]
    with_pair = ch.coin(cfg.get("pair_rate", 0.4), "spec", "pair")
    if with_pair:
        items += [("lit", "|"), ("nt", "pr")]
    items += [("lit", "|"), ("nt", "body")]
    s.rules["start"] = ("cat", tuple(items))
    if with_pair:
        # nested repair targets: <qa>/<qb> live inside <pr>, whose two alternatives have different shapes
        s.rules["pr"] = ("alt", (("cat", (("nt", "qa"), ("lit", "-"), ("nt", "qb"))), ("cat", (("nt", "qb"), ("lit", "+"), ("nt", "qa")))))
        s.rules["qa"] = ("rx", r"[a-c]", "l")
        s.rules["qb"] = ("rx", r"[a-c]", "l")
    s.with_pair = with_pair
    if with_many:
        k_ = ch.pick([6, 7, 9, 10, 11], "spec", "many-k")
        s.rules["mm"] = ("rep", ("cat", (("nt", "mx"), ("lit", "."))), k_, k_)
        s.rules["mx"] = ("rx", r"[0-9]", "d")
    s.rules["fa"] = ("rx", r"[0-9]{1,3}", "d")
    s.rules["fb"] = ("rx", r"[0-9]{1,3}", "d")
    s.rules["fc"] = ("rx", r"[a-d]+", "l")
    s.rules["fds"] = ("star", ("cat", (("nt", "fd"), ("lit", ","))))
    s.rules["fd"] = ("rx", r"[0-9]{1,3}", "d")
    # two bounded repetitions with different maxima over the same element (equality repair parses one into the other)
    s.rules["ra"] = ("rep", ("nt", "rc"), 1, 3)
    s.rules["rb"] = ("rep", ("nt", "rc"), 1, 4)
    s.rules["rc"] = ("rx", r"[ab]", "p")
    if allow_raising:
        s.rules["fe"] = ("rx", r"[0-9a]", "e")
        s.rules["fz"] = ("rx", r"[0-9]", "d")
        s.rules["row"] = ("rep", ("nt", "cell"), 1, 3)  # <row>[2] raises IndexError out of fitness() for short rows
        s.rules["cell"] = ("rx", r"[0-9]", "d")
    for k in range(1, r + 1):
        form = ch.weighted([3, 2, 2], "spec", "crep-body")
        if form == 0:
            body_ = ("nt", "it_%d" % k)
        elif form == 1:
            body_ = ("cat", (("nt", "it_%d" % k), ("lit", "~"), ("nt", "it_%d" % k)))  # multi-symbol group
        else:
            body_ = ("cat", (("nt", "it_%d" % k), ("lit", "/")))  # group that ends in a terminal
        s.crep_per_iteration = getattr(s, "crep_per_iteration", {})
        s.crep_per_iteration[k] = 2 if form == 1 else 1
        ranged = form == 0 and ch.coin(0.35, "spec", "crep-ranged")
        s.crep_range = getattr(s, "crep_range", {})
        s.crep_range[k] = 2 if ranged else 0
        expr_ = "int(<cnt_%d>)" % k if not ranged else "int(<cnt_%d>), int(<cnt_%d>) + 2" % (k, k)
        s.rules["lst_%d" % k] = ("cat", (("nt", "cnt_%d" % k), ("lit", "="), ("crep", body_, expr_), ("lit", ";")))
        s.rules["cnt_%d" % k] = ("rx", r"[1-3]", "c")
        s.rules["it_%d" % k] = ("rx", r"[a-d]", "l")
    for k in range(1, n_gen + 1):
        name = "g_%d" % k
        if ch.coin(0.5, "spec", "gen-inner-structure"):
            s.rules[name] = ("rep", ("nt", "dg"), 2, 4)
            s.rules["dg"] = ("rx", r"[0-9]", "d")
        else:
            s.rules[name] = ("rx", r"[0-9]{2,4}", "d")
        s.generators[name] = ("_vb.gen('%s')" % name, ())
        s.gen_fields.append(name)
    if with_grec:
        s.rules["hd"] = ("nt", "rec")
        s.rules["tl"] = ("nt", "rec")
        s.rules["rec"] = ("cat", (("nt", "gr"), ("lit", ":"), ("nt", "nm")))
        s.rules["gr"] = ("rep", ("nt", "dg"), 2, 4)
        s.rules["dg"] = ("rx", r"[0-9]", "d")
        s.rules["nm"] = ("rx", r"[a-c]{1,2}", "l")
        s.generators["gr"] = ("_vb.gen('gr')", ())
        s.gen_fields.append("gr")
    for k in range(1, n_dep + 1):
        # a generator with arguments: the argument symbols are parameter-only (not derived from <start>)
        name = "d_%d" % k
        two = bool(ch.draw(2, "spec", "dep-two-args"))
        # the generated field has inner structure, so an operator *could* edit below it
        s.rules[name] = ("rep", ("nt", "dg"), 1, 4)
        s.rules["dg"] = ("rx", r"[0-9]", "d")
        s.rules["pa_%d" % k] = ("rx", r"[ab]", "p")
        deps = ("pa_%d" % k,)
        if two:
            s.rules["pb_%d" % k] = ("rx", r"[ab]{1,2}", "p")
            deps += ("pb_%d" % k,)
        s.generators[name] = ("_vb.gen('%s', %s)" % (name, ", ".join("str(<%s>)" % d for d in deps)), deps)
        s.gen_fields.append(name)
    for n, rule in body.rules.items():
        s.rules["body" if n == "start" else "b_" + n] = _rename(rule)
    # ---- constraints -----------------------------------------------------------------
    for _ in range(h):
        tpl = _templates(ch, allow_raising)
        if s.with_pair and ch.coin(0.4, "spec", "pair-tpl"):
            tpl = PAIR_TEMPLATES
        prefer = cfg.get("prefer_kinds")
        if prefer and ch.coin(0.5, "spec", "prefer-kind"):
            # the check of one property leans towards the constraint shapes its mechanisms depend on
            sub = [x for x in tpl if any(x[3].startswith(k_) for k_ in prefer)]
            tpl = sub or tpl
        text, names, fn, kind = tpl[ch.draw(len(tpl), "spec", "tpl")]
        if names == "QUANT":
            def pred(m, fn=fn):
                try:
                    return bool(fn(m))
                except Exception:
                    return False
            s.cons.append({"text": "where " + text, "names": [], "pred": pred, "kind": kind})
        else:
            s.cons.append({"text": "where " + text, "names": names, "pred": (lambda m, names=names, fn=fn: _all(m, names, fn)), "kind": kind})
    if with_many:
        lim = ch.pick([9, 9, 7], "spec", "many-lim")
        s.cons.append({"text": "where int(<mx>) <= %d" % lim, "names": ["mx"], "pred": (lambda m, lim=lim: _all(m, ["mx"], lambda a: int(a) <= lim)), "kind": "cmp-many-matches"})
        s.h += 1
    if with_grec:
        s.cons.append({"text": "where str(<hd>) == str(<tl>)", "names": ["hd", "tl"], "pred": (lambda m: _all(m, ["hd", "tl"], lambda a, b: a == b)), "kind": "eq-generator-record"})
        s.h += 1
    # a module-level Python name read by one constraint is also used as the loop variable of a
    # comprehension in another constraint of the same spec (two sites that each look fine alone)
    kinds_ = {c["kind"] for c in s.cons}
    if ("python-global" in kinds_) != ("comprehension-shadows-global" in kinds_):
        if "python-global" in kinds_:
            s.cons.append({"text": "where all(int(str(LIM)) <= 999 for LIM in *<fds>.<fd>)", "names": [], "pred": (lambda m: True), "kind": "comprehension-shadows-global"})
        else:
            s.cons.append({"text": "where int(<fa>) <= LIM", "names": ["fa"], "pred": (lambda m: _all(m, ["fa"], lambda a: int(a) <= 900)), "kind": "python-global"})
        s.h += 1
    order = ch.shuffle(list(range(len(s.cons))), "spec", "cons-order")
    s.cons = [s.cons[i] for i in order]
    n_extra = 0
    if s.cons and ch.coin(0.3, "spec", "extra"):
        n_extra = 1 + ch.draw(len(s.cons), "spec", "nextra")
    s.extra_constraints = [c["text"][len("where ") :] for c in s.cons[len(s.cons) - n_extra :]] if n_extra else []
    s.constraints = [c["text"] for c in (s.cons[: len(s.cons) - n_extra] if n_extra else s.cons)]
    if s.constraints and ch.coin(cfg.get("cons_first_rate", 0.4), "spec", "cons-first"):
        # "all orders of declaring them": some where-clauses come before the rules (and so before
        # the repetition-bound constraints the computed repetitions give rise to)
        s.meta["cons_first"] = 1 + ch.draw(len(s.constraints), "spec", "n-cons-first")
    s.py_prelude = ["LIM = 900"]
    if n_gen or n_dep:
        s.py_prelude.append("from simfw import bridge as _vb")
    return s


def _rename(node):
    k = node[0]
    if k == "nt":
        return ("nt", "body" if node[1] == "start" else "b_" + node[1])
    if k in ("cat", "alt"):
        return (k, tuple(_rename(x) for x in node[1]))
    if k in ("star", "plus", "opt"):
        return (k, _rename(node[1]))
    if k == "rep":
        return ("rep", _rename(node[1]), node[2], node[3])
    return node
